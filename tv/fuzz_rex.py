"""
Coverage-guided tier for the rexpy properties (C03 + C13 oracles in one
target), used by `bin/check C03 thorough`.

    python -m tv.fuzz_rex OUTDIR SHARD [libFuzzer args...]

The byte string is decoded (FuzzedDataProvider) into the same JSON case the
Hypothesis tier generates: template choices, fills from the class alphabets,
options, Size.  rexpy's own Python control flow is instrumented; the C `re`
engine gives no gradient, hence the structured decoder.  Violations are not
raised (libFuzzer would stop at the first): each is appended to
OUTDIR/viol-SHARD.jsonl and the campaign goes on; counters are flushed to
OUTDIR/stats-SHARD.json.  The saved case, not the libFuzzer seed, is the
reproducible unit.
"""

import json
import os
import sys

import atheris

with atheris.instrument_imports(include=['tdda.rexpy.rexpy']):
    from tdda.rexpy import rexpy      # noqa: F401

from tv import state
from tv.core import case_hash
from tv.gen import rex as G
from tv.gen import text as T
from tv.props import c03, c13

ALPHAS = [T.LOWER, T.UPPER, T.LOWER + T.UPPER, T.DIGITS, T.HEXL,
          T.LOWER + T.UPPER + T.DIGITS, T.NONASCII_LETTERS,
          T.NONASCII_DECIMALS, T.DIGIT_LIKES, T.LETTER_NUMBERS, T.PUNCT,
          '^-]\\', ''.join(T.WS_KINDS), T.CONTROLS.replace('\x00', ''),
          T.OTHER_SYMBOLS, T.ASTRAL]
LITERALS = G.REGEX_LOOKALIKES + ['-', '.', '_', ':', '/', '@', ' ', '--']
EXTRA = [None, None, '_', '-', '.', '_-', '_.', '.-', '_.-']


def decode(data):
    fdp = atheris.FuzzedDataProvider(data)
    ntemp = fdp.ConsumeIntInRange(1, 3)
    xs = []
    for _ in range(ntemp):
        nfrag = fdp.ConsumeIntInRange(1, 5)
        frags = []
        for _ in range(nfrag):
            kind = fdp.ConsumeIntInRange(0, len(ALPHAS))
            if kind == len(ALPHAS):
                frags.append(('lit', LITERALS[fdp.ConsumeIntInRange(
                    0, len(LITERALS) - 1)]))
            else:
                a = ALPHAS[kind]
                if kind in (10, 11):      # a subset of the punctuation
                    k = fdp.ConsumeIntInRange(1, min(7, len(a)))
                    start = fdp.ConsumeIntInRange(0, len(a) - 1)
                    a = ''.join(a[(start + 3 * j) % len(a)]
                                for j in range(k))
                lo = fdp.ConsumeIntInRange(0, 3)
                hi = lo + fdp.ConsumeIntInRange(0, 4) or 1
                frags.append(('alpha', a, lo, hi))
        ninst = fdp.ConsumeIntInRange(1, 14)
        for _ in range(ninst):
            parts = []
            for f in frags:
                if f[0] == 'lit':
                    parts.append(f[1])
                else:
                    n = fdp.ConsumeIntInRange(f[2], f[3])
                    parts.append(''.join(
                        f[1][fdp.ConsumeIntInRange(0, len(f[1]) - 1)]
                        for _ in range(n)))
            xs.append(''.join(parts))
    flags = fdp.ConsumeIntInRange(0, 255)
    if flags & 1:
        xs.append('')
    if flags & 2 and xs:
        xs.append(' ' + xs[0] + ' ')
    if flags & 4:
        xs.append(None)
    opts = {
        'tag': bool(flags & 8),
        'full_escape': bool(flags & 16),
        'remove_empties': bool(flags & 32),
        'strip': bool(flags & 64),
        'variableLengthFrags': bool(flags & 128),
        'extra_letters': EXTRA[fdp.ConsumeIntInRange(0, len(EXTRA) - 1)],
        'dialect': G.PY_DIALECTS[fdp.ConsumeIntInRange(0, 2)],
    }
    smode = fdp.ConsumeIntInRange(0, 5)
    size = None
    if smode == 1:
        size = 0
    elif smode >= 2:
        size = {}
        if smode in (2, 4, 5):
            size.update({'do_all': fdp.ConsumeIntInRange(1, 6),
                         'do_all_exceptions': fdp.ConsumeIntInRange(1, 6),
                         'n_per_length': fdp.ConsumeIntInRange(1, 4),
                         'max_sampled_attempts': fdp.ConsumeIntInRange(0, 2)})
        if smode in (3, 4):
            size['max_strings_in_group'] = fdp.ConsumeIntInRange(1, 5)
        if smode in (3, 5):
            size['max_punc_in_group'] = fdp.ConsumeIntInRange(1, 6)
    seed = [None, None, 0, 1, 2, 3][fdp.ConsumeIntInRange(0, 5)]
    return {'examples': xs[:24], 'opts': opts, 'size': size, 'seed': seed,
            'form': 'dict' if fdp.ConsumeBool() else 'list', 'steered': []}


class Counters(object):
    def __init__(self, outdir, shard):
        self.path = os.path.join(outdir, 'stats-%s.json' % shard)
        self.viol = os.path.join(outdir, 'viol-%s.jsonl' % shard)
        self.execs = 0
        self.nontrivial = set()
        self.violations = 0
        self.sample = None

    def flush(self):
        with open(self.path + '.tmp', 'w') as f:
            json.dump({'execs': self.execs,
                       'distinct_nontrivial': len(self.nontrivial),
                       'violations': self.violations,
                       'sample': self.sample}, f, ensure_ascii=True)
        os.replace(self.path + '.tmp', self.path)


def main():
    outdir, shard = sys.argv[1], sys.argv[2]
    os.makedirs(outdir, exist_ok=True)
    counters = Counters(outdir, shard)

    class Ctx(object):
        known_ids = set()
        tier = 'thorough'
    ctx = Ctx()

    def one(data):
        try:
            case = decode(data)
        except Exception:
            return
        if not case['examples'] or not c03.valid(case):
            return
        counters.execs += 1
        for (name, mod) in (('C03', c03), ('C13', c13)):
            state.reset(case)
            try:
                out = mod.run(case, ctx)
            finally:
                state.restore()
            if name == 'C03' and out.nontrivial:
                counters.nontrivial.add(case_hash(case)[:12])
                if counters.sample is None:
                    counters.sample = case
            viol = list(out.violations) + [
                ('known-finding-not-listed', k[0], k[1]) for k in out.known]
            if viol:
                counters.violations += len(viol)
                with open(counters.viol, 'a') as f:
                    for v in viol:
                        f.write(json.dumps({'property': name, 'clause': v[0],
                                            'bucket': v[1], 'detail': v[2],
                                            'case': case},
                                           ensure_ascii=True) + '\n')
        if counters.execs % 500 == 0:
            counters.flush()

    argv = [sys.argv[0]] + sys.argv[3:]
    atheris.Setup(argv, one)
    try:
        atheris.Fuzz()
    finally:
        counters.flush()


if __name__ == '__main__':
    main()
