"""
Reference semantics of tdda constraints over plain Python values, written
from tdda_json_file_format.md and the verify_df / detect_df docstrings.
Shared by C02 (verdicts), C06 (per-record flags) and C07 (discovery).

A column is (kind, values) where values are Python values with None for
null (tv.gen.frames.py_values).
"""

import datetime
import math
import re

from tv.gen import frames as F

FLAGS = re.UNICODE | re.DOTALL


def actual_type(kind, values):
    """The tdda type the documentation assigns to the column."""
    t = F.tdda_type(kind)
    if kind == 'onum':
        return 'string'
    if kind in ('obool', 'odate', 'odatetime', 'ostr'):
        # an object column's type is that of its values; with no non-null
        # value there is no way to tell, and tdda says 'string'
        if all(v is None for v in values):
            return 'string'
    return t


def parse_date_bound(s):
    """Date-valued bounds are written as YYYY-MM-DD[ HH:MM:SS[.ffffff]];
    the loader also reads '/' for '-', 'T' for the space and one-digit
    month, day and hour."""
    if isinstance(s, (datetime.datetime, datetime.date)):
        return s
    m = re.match(r'^(\d{4})[-/](\d\d?)[-/](\d\d?)'
                 r'(?:[ T](\d\d?):(\d\d):(\d\d)(?:\.(\d{6}))?)?$', s)
    if not m:
        raise ValueError('not a date bound: %r' % (s,))
    g = [int(x) for x in m.groups() if x is not None]
    return datetime.datetime(*g)


def as_dt(v):
    if isinstance(v, datetime.datetime):
        return v
    return datetime.datetime(v.year, v.month, v.day)


def fuzz_down(v, eps):
    if eps == 0:
        return v        # no tolerance: the bound itself, exactly
    return v * ((1 - eps) if v >= 0 else (1 + eps))


def fuzz_up(v, eps):
    if eps == 0:
        return v
    return v * ((1 + eps) if v >= 0 else (1 - eps))


def split_bound(c):
    """constraint value -> (value, precision)"""
    if isinstance(c, dict):
        return c.get('value'), c.get('precision')
    return c, None


def nonnull(values):
    return [v for v in values if v is not None]


def is_whole(x):
    """c.astype(int) == c, the docstring's formula: whole and an int64."""
    return (not math.isinf(x) and not math.isnan(x) and abs(x) < 2.0**63
            and float(x) == int(x))


def verdict(kind_of_constraint, cvalue, col, epsilon, type_checking,
            field_type_is_date=False):
    """
    col is None for a field the data lacks, else (kind, values).
    Returns True / False (the documented verdict).
    """
    k = kind_of_constraint
    value, precision = (split_bound(cvalue) if k in ('min', 'max')
                        else (cvalue, None))
    if col is None:
        return False
    if value is None:
        return True
    ckind, values = col
    nn = nonnull(values)
    atype = actual_type(ckind, values)
    if k == 'type':
        allowed = value if isinstance(value, list) else [value]
        if atype in allowed:
            return True
        if type_checking == 'strict':
            return False
        if 'int' in allowed and atype == 'real':
            return all(is_whole(x) for x in nn)
        if 'bool' in allowed and atype == 'string':
            return all(isinstance(x, bool) for x in nn)
        return False
    if k in ('min', 'max'):
        if not nn:
            return True
        if atype == 'date':
            b = as_dt(parse_date_bound(value))
            m = as_dt(min(nn)) if k == 'min' else as_dt(max(nn))
            return m >= b if k == 'min' else m <= b
        m = min(nn) if k == 'min' else max(nn)
        eps = epsilon
        if isinstance(value, str):
            # text: no tolerance applies; open excludes the bound itself
            if precision == 'open':
                return m > value if k == 'min' else m < value
            return m >= value if k == 'min' else m <= value
        if precision == 'closed':
            return m >= value if k == 'min' else m <= value
        if precision == 'open':
            return m > value if k == 'min' else m < value
        if k == 'min':
            return (m >= value) or (m >= fuzz_down(value, eps))
        return (m <= value) or (m <= fuzz_up(value, eps))
    if k == 'sign':
        if not nn:
            return True
        m, M = min(nn), max(nn)
        return {'positive': m > 0, 'non-negative': m >= 0,
                'zero': m == 0 and M == 0, 'non-positive': M <= 0,
                'negative': M < 0, 'null': False}[value]
    if k in ('min_length', 'max_length'):
        if not nn:
            return True
        L = [len(s) for s in nn]
        return min(L) >= value if k == 'min_length' else max(L) <= value
    if k == 'max_nulls':
        return (len(values) - len(nn)) <= value
    if k == 'no_duplicates':
        if value is False:
            return True
        return len(set(nn)) == len(nn)
    if k == 'allowed_values':
        return set(nn) <= set(value)
    if k == 'rex':
        crs = [re.compile(r, FLAGS) for r in value]
        return all(any(c.match(s) for c in crs) for s in set(nn))
    raise ValueError(k)


def record_flags(kind_of_constraint, cvalue, col, epsilon):
    """
    For a FAILING constraint on an existing field: per-record flag list,
    True = record does not violate, False = violates, None = null cell not
    judged by this kind.  (C06)
    """
    k = kind_of_constraint
    value, precision = (split_bound(cvalue) if k in ('min', 'max')
                        else (cvalue, None))
    ckind, values = col
    atype = actual_type(ckind, values)

    def per(pred):
        return [None if v is None else bool(pred(v)) for v in values]

    if k == 'type':
        return [False] * len(values)
    if k == 'max_nulls':
        return [v is not None for v in values]
    if k == 'no_duplicates':
        from collections import Counter
        c = Counter(v for v in values if v is not None)
        return [None if v is None else c[v] == 1 for v in values]
    if k in ('min', 'max'):
        if atype == 'date':
            b = as_dt(parse_date_bound(value))
            if k == 'min':
                return per(lambda v: as_dt(v) >= b)
            return per(lambda v: as_dt(v) <= b)
        if precision == 'closed':
            return per((lambda v: v >= value) if k == 'min'
                       else (lambda v: v <= value))
        if precision == 'open':
            return per((lambda v: v > value) if k == 'min'
                       else (lambda v: v < value))
        if k == 'min':
            return per(lambda v: v >= value or v >= fuzz_down(value,
                                                               epsilon))
        return per(lambda v: v <= value or v <= fuzz_up(value, epsilon))
    if k == 'sign':
        f = {'positive': lambda v: v > 0, 'non-negative': lambda v: v >= 0,
             'zero': lambda v: v == 0, 'non-positive': lambda v: v <= 0,
             'negative': lambda v: v < 0, 'null': lambda v: False}[value]
        return per(f)
    if k == 'min_length':
        return per(lambda s: len(s) >= value)
    if k == 'max_length':
        return per(lambda s: len(s) <= value)
    if k == 'allowed_values':
        ok = set(value)
        return per(lambda s: s in ok)
    if k == 'rex':
        crs = [re.compile(r, FLAGS) for r in value]
        return per(lambda s: any(c.match(s) for c in crs))
    raise ValueError(k)


# ------------------------------------------------------------ discovery

def render_date(v):
    """How a discovered date bound is written (str() of the datetime)."""
    return str(v)


def discovered(kind, values, nrows):
    """
    The constraint dictionary the documentation says discovery reports for
    one column (C07).  `no_duplicates` is returned as 'either' for the
    field types where statement, documentation and code do not agree
    (bool, date): only the sound direction is then checked by the caller.
    """
    atype = actual_type(kind, values)
    d = {'type': atype}
    if nrows == 0:
        return d
    nn = nonnull(values)
    nnull = len(values) - len(nn)
    if nnull < 2:
        d['max_nulls'] = nnull
    if nn:
        if atype == 'string':
            L = [len(s) for s in nn]
            d['min_length'] = min(L)
            d['max_length'] = max(L)
        else:
            m, M = min(nn), max(nn)
            if atype == 'date':
                d['min'] = render_date(m)
                d['max'] = render_date(M)
            else:
                d['min'] = m
                d['max'] = M
                if m == 0 and M == 0:
                    d['sign'] = 'zero'
                elif m >= 0:
                    d['sign'] = 'positive' if m > 0 else 'non-negative'
                elif M <= 0:
                    d['sign'] = 'negative' if M < 0 else 'non-positive'
    distinct = set(nn)
    if atype in ('string', 'int'):
        if len(nn) > 1 and len(distinct) == len(nn):
            d['no_duplicates'] = True
    elif atype in ('bool', 'date'):
        if len(nn) > 1 and len(distinct) == len(nn):
            d['no_duplicates'] = 'either'
    if atype == 'string' and 1 <= len(distinct) <= 20:
        d['allowed_values'] = sorted(distinct)
    return d
