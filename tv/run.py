"""
Runner:  python -m tv.run <ID> <quick|thorough> [--replay FILE] [--cases N]

Exit status: 0 property held on everything explored (known findings are
printed as KNOWN-FINDING lines), 1 at least one violation not listed in
known_findings.json (one VIOLATION line each), 2 harness error.
"""

import argparse
import importlib
import json
import multiprocessing
import os
import shutil
import sys
import tempfile
import time
import traceback
from collections import Counter

VERIF_ROOT = os.path.dirname(os.path.dirname(os.path.abspath(__file__)))

from tv.core import (Outcome, jdumps, canon, case_hash, case_size, derive_seed,
                     repo_root)
from tv.shrink import shrink
from tv import state


MAX_SAMPLE_LABELS = 40


class Ctx(object):
    """Per-process context handed to run()."""
    def __init__(self, prop_id, tier, scratch, known_ids, env):
        self.prop_id = prop_id
        self.tier = tier
        self.scratch = scratch
        self.known_ids = set(known_ids)
        self.env = env            # facts captured once by the parent
        self._n = 0
        self._last = None
        os.makedirs(scratch, exist_ok=True)

    def fresh_dir(self, keep_previous=False):
        """A new empty directory for this case; the previous one is removed."""
        if self._last and not keep_previous:
            shutil.rmtree(self._last, ignore_errors=True)
        self._n += 1
        d = os.path.join(self.scratch, 'c%06d' % self._n)
        if os.path.exists(d):
            shutil.rmtree(d, ignore_errors=True)
        os.makedirs(d)
        self._last = d
        return d


class Stats(object):
    def __init__(self):
        self.evaluations = 0
        self.nontrivial = set()
        self.labels = Counter()
        self.samples = {}          # label -> case
        self.buckets = {}          # (clause, bucket) -> dict
        self.known = {}            # finding id -> dict(count, case, detail)
        self.excluded = Counter()
        self.harness = []          # (traceback text, case)
        self.truncated = False
        self.skipped = 0

    def consume(self, case, out):
        self.evaluations += 1
        for lb in out.labels:
            self.labels[lb] += 1
        if out.nontrivial:
            self.nontrivial.add(case_hash(case)[:16])
            for lb in out.labels or ['(unlabelled)']:
                if lb not in self.samples and (
                        len(self.samples) < MAX_SAMPLE_LABELS):
                    self.samples[lb] = case
        for fid in out.excluded:
            self.excluded[fid] += 1
        for (clause, bucket, detail) in out.violations:
            key = (clause, bucket)
            b = self.buckets.get(key)
            if b is None:
                self.buckets[key] = {'count': 1, 'case': case,
                                     'detail': detail}
            else:
                b['count'] += 1
                if case_size(case) < case_size(b['case']):
                    b['case'] = case
                    b['detail'] = detail
        for (fid, detail) in out.known:
            k = self.known.get(fid)
            if k is None:
                self.known[fid] = {'count': 1, 'case': case, 'detail': detail}
            else:
                k['count'] += 1
                if case_size(case) < case_size(k['case']):
                    k['case'] = case
                    k['detail'] = detail

    def dump(self):
        return {
            'evaluations': self.evaluations,
            'nontrivial': list(self.nontrivial),
            'labels': dict(self.labels),
            'samples': self.samples,
            'buckets': [[list(k), v] for (k, v) in self.buckets.items()],
            'known': self.known,
            'excluded': dict(self.excluded),
            'harness': self.harness[:3],
            'truncated': self.truncated,
            'skipped': self.skipped,
        }

    def merge(self, d):
        self.evaluations += d['evaluations']
        self.nontrivial.update(d['nontrivial'])
        self.labels.update(d['labels'])
        for (lb, c) in d['samples'].items():
            if lb not in self.samples:
                self.samples[lb] = c
        for (k, v) in d['buckets']:
            k = tuple(k)
            b = self.buckets.get(k)
            if b is None:
                self.buckets[k] = v
            else:
                b['count'] += v['count']
                if case_size(v['case']) < case_size(b['case']):
                    b['case'] = v['case']
                    b['detail'] = v['detail']
        for (fid, v) in d['known'].items():
            k = self.known.get(fid)
            if k is None:
                self.known[fid] = v
            else:
                k['count'] += v['count']
                if case_size(v['case']) < case_size(k['case']):
                    k['case'] = v['case']
                    k['detail'] = v['detail']
        self.excluded.update(d['excluded'])
        self.harness.extend(d['harness'])
        self.truncated = self.truncated or d['truncated']
        self.skipped += d['skipped']


def resolve(out, known_ids):
    """
    A violation tagged by the module as belonging to finding F counts as a
    known hit only while F is listed as `known` in known_findings.json;
    otherwise it is an ordinary violation.
    """
    keep = []
    for (fid, detail) in out.known:
        if fid in known_ids:
            keep.append((fid, detail))
        else:
            out.violations.append(('known-finding-not-listed', fid, detail))
    out.known = keep
    return out


def safe_run(mod, case, ctx):
    """
    Run one case.  Returns (Outcome, harness_traceback_or_None).
    """
    state.reset(case)
    t0 = time.time()
    cur = os.environ.get('VERIF_SLOW_LOG')
    if cur:
        # (what a worker that never comes back was working on)
        with open('%s.current.%d' % (cur, os.getpid()), 'w') as f:
            f.write(json.dumps(case))
    try:
        out = mod.run(case, ctx)
        if not isinstance(out, Outcome):
            raise TypeError('run() did not return an Outcome')
        return resolve(out, ctx.known_ids), None
    except Exception:
        return Outcome(), traceback.format_exc()
    finally:
        state.restore()
        slow = os.environ.get('VERIF_SLOW_LOG')
        if slow and time.time() - t0 > float(os.environ.get(
                'VERIF_SLOW_S', '5')):
            with open(slow, 'a') as f:
                f.write(json.dumps({'s': round(time.time() - t0, 1),
                                    'case': case}) + '\n')


def load_module(prop_id):
    return importlib.import_module('tv.props.%s' % prop_id.lower())


def load_findings(prop_id):
    path = os.path.join(VERIF_ROOT, 'known_findings.json')
    known, fixed = [], []
    if os.path.exists(path):
        with open(path) as f:
            d = json.load(f)
        for e in d.get('known', []):
            if prop_id in e.get('properties', [e.get('property')]):
                known.append(e)
        for e in d.get('fixed', []):
            if prop_id in e.get('properties', [e.get('property')]):
                fixed.append(e)
    return known, fixed


def repros_of(entry, prop_id):
    r = entry.get('repros', {})
    if isinstance(r, dict):
        return list(r.get(prop_id, []))
    return list(r)


def shard_main(args):
    (prop_id, tier, shard, n_cases, seed_value, scratch, known_ids, env,
     time_limit) = args
    from hypothesis import given, settings, seed, Phase, HealthCheck
    import hypothesis
    mod = load_module(prop_id)
    ctx = Ctx(prop_id, tier, os.path.join(scratch, 's%02d' % shard),
              known_ids, env)
    ctx.shard = shard
    stats = Stats()
    t0 = time.time()

    @seed(derive_seed(seed_value, prop_id, shard))
    @settings(max_examples=n_cases, database=None, deadline=None,
              derandomize=False, report_multiple_bugs=False,
              phases=[Phase.generate],
              suppress_health_check=list(HealthCheck))
    @given(mod.strategy(tier))
    def campaign(case):
        if stats.truncated or time.time() - t0 > time_limit:
            stats.truncated = True
            stats.skipped += 1
            return
        out, err = safe_run(mod, case, ctx)
        if err is not None:
            stats.harness.append((err, case))
            stats.evaluations += 1
            return
        stats.consume(case, out)

    try:
        campaign()
    except hypothesis.errors.Unsatisfiable:
        stats.harness.append(('strategy unsatisfiable', None))
    except Exception:
        stats.harness.append((traceback.format_exc(), None))
    shutil.rmtree(ctx.scratch, ignore_errors=True)
    return stats.dump()


def minimise_one(args):
    (prop_id, tier, scratch, known_ids, env, key, case, budget, idx) = args
    mod = load_module(prop_id)
    ctx = Ctx(prop_id, tier, os.path.join(scratch, 'm%03d' % idx),
              known_ids, env)
    clause, bucket = key

    valid = getattr(mod, 'valid', None)

    def still_fails(c):
        if valid is not None:
            try:
                if not valid(c):
                    return False
            except Exception:
                return False
        out, err = safe_run(mod, c, ctx)
        if err is not None:
            return False
        return any(v[0] == clause and v[1] == bucket for v in out.violations)

    if not still_fails(case):
        # not reproducible in a fresh process: report as is, flagged
        small, repro = case, False
    else:
        small, repro = shrink(case, still_fails, budget), True
    out, err = safe_run(mod, small, ctx)
    detail = ''
    for v in out.violations:
        if v[0] == clause and v[1] == bucket:
            detail = v[2]
    shutil.rmtree(ctx.scratch, ignore_errors=True)
    return key, small, repro, detail


def capture_env():
    import socket
    import datetime
    return {
        'host': socket.gethostname(),
        'today': datetime.date.today().isoformat(),
        'python': sys.version.split()[0],
        'repo': repo_root(),
    }


def main(argv=None):
    for stream in (sys.stdout, sys.stderr):
        if hasattr(stream, 'reconfigure'):
            stream.reconfigure(errors='backslashreplace')
    ap = argparse.ArgumentParser()
    ap.add_argument('prop')
    ap.add_argument('tier', choices=['quick', 'thorough'])
    ap.add_argument('--replay')
    ap.add_argument('--cases', type=int)
    ap.add_argument('--jobs', type=int)
    ap.add_argument('--no-shrink', action='store_true')
    a = ap.parse_args(argv)

    prop_id = a.prop.upper()
    tier = a.tier
    t0 = time.time()
    seed_value = int(os.environ.get('VERIF_SEED', '1') or 1)
    jobs = a.jobs or int(os.environ.get('VERIF_JOBS', '0') or 0) or min(
        16, os.cpu_count() or 1)
    scratch = tempfile.mkdtemp(prefix='tv-%s-' % prop_id,
                               dir=os.environ.get('VERIF_SCRATCH_ROOT'))
    env = capture_env()
    try:
        mod = load_module(prop_id)
        known, fixed = load_findings(prop_id)
        known_ids = [e['id'] for e in known]
        ctx = Ctx(prop_id, tier, os.path.join(scratch, 'main'), known_ids,
                  env)
        if a.replay:
            return replay(mod, ctx, a.replay, prop_id)
        rc = campaign(mod, prop_id, tier, seed_value, jobs, scratch, known,
                      fixed, ctx, env, a, t0)
        return rc
    finally:
        shutil.rmtree(scratch, ignore_errors=True)


def replay(mod, ctx, path, prop_id):
    with open(path) as f:
        d = json.load(f)
    case = d['case'] if isinstance(d, dict) and 'case' in d and (
        'property' in d) else d
    out, err = safe_run(mod, case, ctx)
    if err is not None:
        print('HARNESS-ERROR while replaying %s' % path)
        print(err)
        return 2
    print(jdumps(out.to_json(), indent=1)[:6000])
    if out.violations:
        print('VIOLATION property=%s replay=%s' % (prop_id, path))
        return 1
    for (fid, detail) in out.known:
        print('KNOWN-FINDING: property=%s %s %s' % (prop_id, fid, detail))
    return 0


def campaign(mod, prop_id, tier, seed_value, jobs, scratch, known, fixed,
             ctx, env, a, t0):
    known_ids = [e['id'] for e in known]
    stats = Stats()
    fixed_violations = []
    known_lines = []

    # 1. fixed findings: their reproductions are plain regression cases
    for e in fixed:
        for case in repros_of(e, prop_id):
            out, err = safe_run(mod, case, ctx)
            if err is not None:
                stats.harness.append((err, case))
                continue
            out.label('regression:fixed')
            stats.consume(case, out)
    # 2. known findings: print while the reproduction still fails
    for e in known:
        still = False
        for case in repros_of(e, prop_id):
            out, err = safe_run(mod, case, ctx)
            if err is not None:
                stats.harness.append((err, case))
                continue
            if any(fid == e['id'] for (fid, _) in out.known):
                still = True
            stats.consume(case, out)
        if still:
            known_lines.append('KNOWN-FINDING: property=%s %s: %s'
                               % (prop_id, e['id'], e['what']))
    # 3. the module's own fixed regression cases
    for (name, case) in getattr(mod, 'REGRESSIONS', []):
        out, err = safe_run(mod, case, ctx)
        if err is not None:
            stats.harness.append((err, case))
            continue
        out.label('regression:' + name)
        stats.consume(case, out)

    # 4. generated campaign
    budget = a.cases or int(os.environ.get('VERIF_CASES', '0') or 0) or (
        mod.BUDGET[tier])
    per = max(1, budget // jobs)
    time_limit = float(os.environ.get('VERIF_TIME_LIMIT', '0') or 0) or (
        getattr(mod, 'TIME_LIMIT', {'quick': 600, 'thorough': 5400})[tier])
    work = [(prop_id, tier, s, per, seed_value, scratch, known_ids, env,
             time_limit) for s in range(jobs)]
    if jobs == 1:
        results = [shard_main(work[0])]
    else:
        mpctx = multiprocessing.get_context('fork')
        with mpctx.Pool(jobs) as pool:
            results = pool.map(shard_main, work, chunksize=1)
    for r in results:
        stats.merge(r)

    # 5. enumerated / auxiliary sub-campaigns
    extra_info = {}
    if hasattr(mod, 'extra'):
        try:
            for (case, out) in mod.extra(tier, ctx, extra_info, seed_value):
                stats.consume(case, resolve(out, ctx.known_ids))
        except Exception:
            stats.harness.append((traceback.format_exc(), None))

    # 6. minimise and report
    shrink_budget = 0 if a.no_shrink else getattr(
        mod, 'SHRINK_BUDGET', {'quick': 300, 'thorough': 3000})[tier]
    items = sorted(stats.buckets.items(), key=lambda kv: kv[0])
    jobs_m = [(prop_id, tier, scratch, known_ids, env, k, v['case'],
               shrink_budget, i) for i, (k, v) in enumerate(items)]
    minimised = []
    if jobs_m:
        if jobs == 1 or len(jobs_m) == 1:
            minimised = [minimise_one(j) for j in jobs_m]
        else:
            mpctx = multiprocessing.get_context('fork')
            with mpctx.Pool(min(jobs, len(jobs_m))) as pool:
                minimised = pool.map(minimise_one, jobs_m, chunksize=1)

    lines = []
    rdir = os.path.join(os.environ.get('VERIF_OUT_DIR') or VERIF_ROOT,
                        'replays', prop_id)
    viol_records = []
    for (key, small, repro, detail) in minimised:
        os.makedirs(rdir, exist_ok=True)
        name = case_hash({'k': list(key)})[:12] + '.json'
        path = os.path.join(rdir, name)
        rec = {'property': prop_id, 'clause': key[0], 'bucket': key[1],
               'detail': detail or stats.buckets[key]['detail'],
               'reproducible_in_fresh_process': repro,
               'occurrences': stats.buckets[key]['count'],
               'seed': seed_value, 'tier': tier, 'case': small}
        with open(path, 'w') as f:
            f.write(jdumps(rec, indent=1))
            f.write('\n')
        rel = os.path.relpath(path, VERIF_ROOT)
        lines.append('VIOLATION property=%s replay=%s' % (prop_id, rel))
        viol_records.append({'clause': key[0], 'bucket': key[1],
                             'detail': rec['detail'][:300],
                             'occurrences': rec['occurrences'],
                             'replay': rel})

    wall = time.time() - t0
    write_evidence(mod, prop_id, tier, seed_value, stats, known, known_lines,
                   viol_records, wall, jobs, env, extra_info, budget)

    for ln in known_lines:
        print(ln)
    for r in viol_records:
        print('  %s [%s] x%d: %s' % (r['clause'], r['bucket'],
                                     r['occurrences'], r['detail'][:200]))
    for ln in lines:
        print(ln)
    print('%s %s: %d cases, %d distinct non-trivial, %d violation bucket(s), '
          '%d known-finding hit(s), %.1fs%s'
          % (prop_id, tier, stats.evaluations, len(stats.nontrivial),
             len(lines), sum(v['count'] for v in stats.known.values()), wall,
             ' TRUNCATED' if stats.truncated else ''))
    if stats.harness:
        print('HARNESS-ERROR (%d); first:' % len(stats.harness))
        print(stats.harness[0][0])
        if stats.harness[0][1] is not None:
            print('case: %s' % canon(stats.harness[0][1])[:3000])
        return 2
    return 1 if lines else 0


def write_evidence(mod, prop_id, tier, seed_value, stats, known, known_lines,
                   viol_records, wall, jobs, env, extra_info, budget):
    samples = []
    for lb in sorted(stats.samples.keys()):
        if len(samples) >= 6:
            break
        c = stats.samples[lb]
        if all(canon(c) != canon(s['case']) for s in samples):
            samples.append({'label': lb, 'case': c})
    if not samples:
        samples = [{'label': '(none non-trivial)', 'case': None}]
    cov = {
        'evaluations': stats.evaluations,
        'distinct_nontrivial': len(stats.nontrivial),
        'rule': mod.RULE,
        'samples': samples,
        'exhaustive': False,
        'label_histogram': dict(sorted(stats.labels.items())),
        'requested_cases': budget,
        'shards': jobs,
        'truncated_by_time_guard': stats.truncated,
        'cases_skipped_after_time_guard': stats.skipped,
        'excluded_by_construction': dict(stats.excluded),
        'known_finding_hits': {k: v['count']
                               for (k, v) in stats.known.items()},
        'known_findings_still_failing': known_lines,
        'violation_buckets': viol_records,
        'environment': env,
    }
    cov.update(extra_info)
    ev = {
        'property_id': prop_id,
        'tier': tier,
        'seed': seed_value,
        'level': 'exploration',
        'coverage': cov,
        'assumptions': list(getattr(mod, 'ASSUMPTIONS', [])),
        'wall_s': round(wall, 2),
        'violations': len(viol_records),
    }
    edir = os.environ.get('VERIF_OUT_DIR') and os.path.join(
        os.environ['VERIF_OUT_DIR'], 'evidence') or os.path.join(
        VERIF_ROOT, 'evidence')
    os.makedirs(edir, exist_ok=True)
    tmp = os.path.join(edir, '.%s.json.tmp' % prop_id)
    with open(tmp, 'w') as f:
        f.write(jdumps(ev, indent=1, default=repr))
        f.write('\n')
    os.replace(tmp, os.path.join(edir, '%s.json' % prop_id))


if __name__ == '__main__':
    sys.exit(main())
