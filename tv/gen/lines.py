"""
G-lines: (actual, reference) line lists with declared exclusions, and the
executable specification of the text-comparison rule (C04, C15).

Lines never contain a line-boundary character; texts are assembled by the
harness ('\\n'.join + optional final newline), so what a "line" is does not
depend on the code under test.
"""

import re

from hypothesis import strategies as st

F_WORDS = ['ALPHA', 'BETA', 'GAMMA', 'TOTAL', 'USER', 'HOST', 'AT', 'IS',
           'VALUE', 'X', 'Y', 'ÉTÉ', 'ΩMEGA', 'KEY=', '(A)', 'B;', 'END',
           'ROW', 'ID', 'N']
H_CHARS = '0123456789abcdef.:'

# (pattern text, generator of full matches, fixed width?)
PATTERNS = [
    (r'\d{3}', 'd3'), (r'\d+', 'd+'), (r'\d+\.\d+', 'dec'),
    (r'[0-9a-f]{2}', 'hex2'), (r'[0-9a-f]+', 'hex+'),
    (r'\d{2}:\d{2}', 'time'), (r'\d', 'd1'),
    (r'^\d+$', 'd+'), (r'^[0-9a-f]{4}$', 'hex4'),
    (r'^\d+', 'd+'), (r'\d+$', 'd+'), (r'(\d+)-(\d+)', 'range'),
    # a bare top-level alternation: the expression as a whole is the pattern
    (r'\d+|N/A', 'd+'), (r'\d{3}|[0-9a-f]{4}', 'd3'),
]
PATTERN_TEXTS = [p for (p, _) in PATTERNS]
SHAPE_OF = dict(PATTERNS)

MARKERS = ['OPTIONAL', 'DEBUG', 'TMP', 'ΩPT']
# remove-substrings with white space at an edge: whether a line holds one
# is a question about the line as given, not about the stripped line
EDGE_MARKERS = ['# ', ' #', '--\t']
SUBSTRINGS = ['USER', 'HOST', 'AT', 'KEY=', 'ÉTÉ']
PREPROCESSORS = ['drop_rem', 'cut20', 'drop_first', 'cut_left2']


def fill(shape):
    d = st.integers(0, 7).flatmap(
        lambda k: st.text(alphabet='0123456789', min_size=1, max_size=4)
        if k else
        # decimal digits of other scripts: \d matches them too
        st.sampled_from(['\u0663', '\u0664\u0665', '\uff17', '\u0967\u0968',
                         '4\u0662']))
    if shape == 'd3':
        return st.text(alphabet='0123456789', min_size=3, max_size=3)
    if shape == 'd1':
        return st.text(alphabet='0123456789', min_size=1, max_size=1)
    if shape == 'd+':
        return d
    if shape == 'dec':
        return st.tuples(d, d).map(lambda t: t[0] + '.' + t[1])
    if shape == 'hex2':
        return st.text(alphabet='0123456789abcdef', min_size=2, max_size=2)
    if shape == 'hex4':
        return st.text(alphabet='0123456789abcdef', min_size=4, max_size=4)
    if shape == 'hex+':
        return st.text(alphabet='0123456789abcdef', min_size=1, max_size=5)
    if shape == 'time':
        t2 = st.text(alphabet='0123456789', min_size=2, max_size=2)
        return st.tuples(t2, t2).map(lambda t: t[0] + ':' + t[1])
    if shape == 'range':
        return st.tuples(d, d).map(lambda t: t[0] + '-' + t[1])
    raise ValueError(shape)


SHAPES = ['d3', 'd1', 'd+', 'dec', 'hex2', 'hex4', 'hex+', 'time', 'range']


@st.composite
def template(draw):
    """A line template: list of ('F', text) / ('H', shape) parts."""
    n = draw(st.integers(1, 4))
    parts = []
    for i in range(n):
        parts.append(['F', draw(st.sampled_from(F_WORDS))])
        if draw(st.integers(0, 2)) > 0:
            parts.append(['H', draw(st.sampled_from(SHAPES))])
    if draw(st.integers(0, 5)) == 0:
        parts = [p for p in parts if p[0] == 'H'][:1] or parts  # hole only
    return parts


@st.composite
def instantiate(draw, parts):
    out = []
    for (k, v) in parts:
        if k == 'F':
            out.append(v)
            out.append(draw(st.sampled_from([' ', ' ', '', '  '])))
        else:
            out.append(draw(fill(v)))
            out.append(draw(st.sampled_from([' ', '', ' '])))
    return ''.join(out).rstrip(' ')


def preprocess_fn(name):
    if name is None:
        return None
    if name == 'drop_rem':
        return lambda lines: [ln for ln in lines if not ln.startswith('REM')]
    if name == 'cut20':
        return lambda lines: [ln[:20] for ln in lines]
    # two that are not idempotent: applying them twice is not applying them
    if name == 'drop_first':
        return lambda lines: list(lines[1:])
    if name == 'cut_left2':
        return lambda lines: [ln[2:] for ln in lines]
    raise ValueError(name)


PATTERNS_FOR_SHAPE = {
    'd3': [r'\d{3}', r'\d+', r'[0-9a-f]+', r'\d+|N/A',
           r'\d{3}|[0-9a-f]{4}'],
    'd1': [r'\d', r'\d+', r'\d+|N/A'],
    'd+': [r'\d+', r'[0-9a-f]+', r'\d+$', r'^\d+', r'\d+|N/A'],
    'dec': [r'\d+\.\d+', r'\d+'],
    'hex2': [r'[0-9a-f]{2}', r'[0-9a-f]+'],
    'hex4': [r'[0-9a-f]+', r'^[0-9a-f]{4}$', r'[0-9a-f]{2}',
             r'\d{3}|[0-9a-f]{4}'],
    'hex+': [r'[0-9a-f]+'],
    'time': [r'\d{2}:\d{2}', r'\d+'],
    'range': [r'(\d+)-(\d+)', r'\d+'],
}


@st.composite
def line_case(draw, tier='quick', max_lines=8):
    """
    Edits are tagged, and the option that would excuse each edit is switched
    on with probability ~3/4 (and deliberately left off, or set one short,
    otherwise), so that every option decides the verdict in a sizeable
    share of the cases.
    """
    nlines = draw(st.sampled_from([0, 1, 2, 3, 3, 4, 4, 5, 6, max_lines]))
    templates = [draw(template()) for _ in range(nlines)]
    ref = [draw(instantiate(t)) for t in templates]
    act = list(ref)
    opts = {
        'lstrip': draw(st.sampled_from([False, False, True])),
        'rstrip': draw(st.sampled_from([False, False, True])),
        'ignore_substrings': None, 'ignore_patterns': None,
        'remove_lines': None,
        'preprocess': draw(st.sampled_from([None, None, None, None] +
                                           PREPROCESSORS)),
        'max_permutation_cases': draw(st.sampled_from([0, 0, 0, 1, 2])),
    }
    pats, subs, marks = [], [], []
    if draw(st.integers(0, 3)) == 0:
        pats.append(draw(st.sampled_from(PATTERN_TEXTS)))
    if draw(st.integers(0, 3)) == 0:
        subs.append(draw(st.sampled_from(SUBSTRINGS)))
    if draw(st.integers(0, 4)) == 0:
        marks.append(draw(st.sampled_from(MARKERS)))

    def enable():
        return draw(st.integers(0, 3)) != 0

    edits = draw(st.lists(st.sampled_from([
        'refill', 'refill', 'refill', 'refill_other_shape', 'fchar', 'pad',
        'pad', 'swap', 'swap', 'swap_plus_diff', 'insert_marked',
        'insert_marked',
        'delete_plain', 'insert_plain', 'mark_both', 'substring_line',
        'substring_line', 'substring_actual_only', 'dup_line', 'rem_line',
        'long_line', 'blank_tail', 'insert_edge_marked',
        'edge_marked_pair', 'only_rem', 'bom', 'dup_excused',
        'blank_before_marked_tail', 'header_line']), min_size=0,
        max_size=3))
    if not edits and draw(st.integers(0, 2)) != 0:
        edits = [draw(st.sampled_from(['refill', 'pad', 'swap', 'fchar',
                                       'insert_marked', 'substring_line']))]
    for e in edits:
        if e in ('refill', 'refill_other_shape') and templates:
            holes = [i for (i, t) in enumerate(templates)
                     if any(k == 'H' for (k, _) in t) and i < len(act)]
            if not holes:
                continue
            i = draw(st.sampled_from(holes))
            t = templates[i]
            shapes = [v for (k, v) in t if k == 'H']
            if e == 'refill_other_shape':
                t = [[k, (draw(st.sampled_from(SHAPES)) if k == 'H'
                          else v)] for (k, v) in t]
            act[i] = draw(instantiate(t))
            if enable():
                for sh in shapes:
                    pats.append(draw(st.sampled_from(
                        PATTERNS_FOR_SHAPE[sh])))
        elif e == 'fchar' and act:
            i = draw(st.integers(0, len(act) - 1))
            s = act[i]
            if s:
                j = draw(st.integers(0, len(s) - 1))
                op = draw(st.sampled_from(['sub', 'del', 'ins']))
                c = draw(st.sampled_from(['Q', 'Z', '!', '7', 'z']))
                act[i] = (s[:j] + c + s[j + 1:] if op == 'sub'
                          else s[:j] + s[j + 1:] if op == 'del'
                          else s[:j] + c + s[j:])
        elif e == 'pad' and act:
            i = draw(st.integers(0, len(act) - 1))
            side = draw(st.sampled_from(['l', 'r', 'both', 'ref-r', 'ref-l']))
            ws = draw(st.sampled_from([' ', '  ', '\t']))
            if side in ('l', 'both'):
                act[i] = ws + act[i]
            if side in ('r', 'both'):
                act[i] = act[i] + ws
            if side == 'ref-r' and i < len(ref):
                ref[i] = ref[i] + ws
            if side == 'ref-l' and i < len(ref):
                ref[i] = ws + ref[i]
            if enable():
                if side in ('l', 'both', 'ref-l'):
                    opts['lstrip'] = True
                if side in ('r', 'both', 'ref-r'):
                    opts['rstrip'] = True
        elif e == 'swap_plus_diff' and len(act) >= 3:
            # k lines rotated (excusable with max_permutation_cases >= k)
            # plus one further line really changed, placed after them
            k = draw(st.integers(2, min(3, len(act) - 1)))
            idx = sorted(draw(st.lists(st.integers(0, len(act) - 2),
                                       min_size=k, max_size=k, unique=True)))
            vals = [act[i] for i in idx]
            vals = vals[1:] + vals[:1]
            for (i, v) in zip(idx, vals):
                act[i] = v
            j = draw(st.integers(idx[-1] + 1, len(act) - 1))
            act[j] = act[j] + ' CHANGED'
            opts['max_permutation_cases'] = draw(st.sampled_from([k, k,
                                                                  k + 1]))
        elif e == 'swap' and len(act) >= 2:
            k = draw(st.integers(2, min(4, len(act))))
            idx = draw(st.lists(st.integers(0, len(act) - 1), min_size=k,
                                max_size=k, unique=True))
            vals = [act[i] for i in sorted(idx)]
            vals = vals[1:] + vals[:1]
            for (i, v) in zip(sorted(idx), vals):
                act[i] = v
            opts['max_permutation_cases'] = (
                draw(st.sampled_from([k, k, k + 1])) if enable()
                else draw(st.sampled_from([0, k - 1])))
        elif e in ('insert_marked', 'insert_plain'):
            mk = draw(st.sampled_from(MARKERS)) if e == 'insert_marked' else ''
            line = ('%s %s' % (draw(st.sampled_from(F_WORDS)), mk)).strip()
            side = draw(st.sampled_from(['act', 'ref']))
            tgt = act if side == 'act' else ref
            tgt.insert(draw(st.integers(0, len(tgt))), line)
            if mk and enable():
                marks.append(mk)
        elif e in ('insert_edge_marked', 'edge_marked_pair'):
            mk = draw(st.sampled_from(EDGE_MARKERS))
            w = draw(st.sampled_from(F_WORDS))
            trailing = mk[-1] in ' \t'
            line = draw(st.sampled_from(
                [mk, (w + ' ' + mk) if trailing else (mk + ' ' + w)]))
            if e == 'insert_edge_marked':
                tgt = act if draw(st.booleans()) else ref
                tgt.insert(draw(st.integers(0, len(tgt))), line)
            else:
                # the same line on both sides, but only one side has the
                # white space that makes it hold the marker
                i = draw(st.integers(0, min(len(act), len(ref))))
                sides = [line, line.strip() or 'X']
                if draw(st.booleans()):
                    sides.reverse()
                act.insert(i, sides[0])
                ref.insert(i, sides[1])
            if enable():
                marks.append(mk)
            if enable():
                opts['rstrip' if trailing else 'lstrip'] = True
        elif e == 'delete_plain' and act:
            side = draw(st.sampled_from(['act', 'ref']))
            tgt = act if side == 'act' else ref
            if tgt:
                del tgt[draw(st.integers(0, len(tgt) - 1))]
        elif e == 'mark_both' and act and ref:
            mk = draw(st.sampled_from(MARKERS))
            i = draw(st.integers(0, min(len(act), len(ref)) - 1))
            act[i] = act[i] + ' ' + mk + ' 1'
            ref[i] = ref[i] + ' ' + mk + ' 22'
            if enable():
                marks.append(mk)
        elif e in ('substring_line', 'substring_actual_only') and act and ref:
            sub = draw(st.sampled_from(SUBSTRINGS))
            i = draw(st.integers(0, min(len(act), len(ref)) - 1))
            if e == 'substring_line':
                ref[i] = ref[i] + ' ' + sub + ' OLD'
                act[i] = act[i] + ' ' + draw(st.sampled_from(
                    [sub + ' NEW', 'CHANGED', '']))
            else:
                act[i] = act[i] + ' ' + sub + ' NEW'
            if enable():
                subs.append(sub)
        elif e == 'dup_line' and act:
            i = draw(st.integers(0, len(act) - 1))
            act.insert(i, act[i])
        elif e == 'rem_line':
            line = 'REM ' + draw(st.sampled_from(F_WORDS))
            side = draw(st.sampled_from(['act', 'ref', 'both']))
            if side in ('act', 'both'):
                act.insert(draw(st.integers(0, len(act))), line)
            if side in ('ref', 'both'):
                ref.insert(draw(st.integers(0, len(ref))), line + ' 2')
            if enable():
                opts['preprocess'] = 'drop_rem'
        elif e == 'blank_before_marked_tail':
            # one side ends "..., <blank>, <removable line>": the blank line
            # is not the text's last line, so it counts
            mk = draw(st.sampled_from(MARKERS))
            tgt = act if draw(st.booleans()) else ref
            tgt.extend(['', 'generated ' + mk])
            if enable():
                marks.append(mk)
        elif e == 'header_line':
            # a first line (or a two-character prefix) that only a
            # preprocessor makes go away
            if draw(st.booleans()):
                act.insert(0, 'HEADER run 1')
                ref.insert(0, 'HEADER run 2')
                if enable():
                    opts['preprocess'] = 'drop_first'
            else:
                act[:] = ['A ' + ln for ln in act]
                ref[:] = ['R ' + ln for ln in ref]
                if enable():
                    opts['preprocess'] = 'cut_left2'
        elif e == 'dup_excused':
            # one text twice on the actual side: the first time against a
            # plain, different reference line (an unexcused difference), the
            # second time against a reference line that an ignore-substring
            # excuses; a remove-substring is in force as well
            sub = draw(st.sampled_from(SUBSTRINGS))
            k = draw(st.integers(0, min(len(act), len(ref))))
            act[k:k] = ['SAME LINE', 'SAME LINE']
            ref[k:k] = ['PLAIN OTHER', 'X ' + sub + ' OLD']
            if draw(st.booleans()):
                act[k:k + 2], ref[k:k + 2] = ref[k:k + 2], act[k:k + 2]
                ref[k + 1], act[k + 1] = act[k + 1], ref[k + 1]
            subs.append(sub)
            marks.append(draw(st.sampled_from(MARKERS)))
        elif e == 'bom' and act and ref:
            # U+FEFF as the first character of a text: a character like any
            # other (on one side it is a difference, on both it is not)
            side = draw(st.sampled_from(['act', 'ref', 'both']))
            if side in ('act', 'both'):
                act[0] = '\ufeff' + act[0]
            if side in ('ref', 'both'):
                ref[0] = '\ufeff' + ref[0]
        elif e == 'only_rem':
            # one side, or both, consists of nothing but lines the
            # preprocessor drops: its preprocessed form is empty
            side = draw(st.sampled_from(['act', 'ref', 'both', 'both']))
            if side in ('act', 'both'):
                act[:] = ['REM ' + draw(st.sampled_from(F_WORDS))
                          for _ in range(draw(st.integers(1, 2)))]
            if side in ('ref', 'both'):
                ref[:] = ['REM ' + draw(st.sampled_from(F_WORDS)) + ' 2'
                          for _ in range(draw(st.integers(1, 2)))]
            if enable():
                opts['preprocess'] = 'drop_rem'
        elif e == 'long_line' and act and ref:
            i = draw(st.integers(0, min(len(act), len(ref)) - 1))
            tail = draw(st.sampled_from(['', ' TAIL', ' 9']))
            act[i] = act[i] + ' ' + 'PADDING WORDS ' * 2 + tail
            ref[i] = ref[i] + ' ' + 'PADDING WORDS ' * 2
            if enable():
                opts['preprocess'] = 'cut20'
        elif e == 'blank_tail':
            side = draw(st.sampled_from(['act', 'ref', 'both']))
            if side in ('act', 'both'):
                act.append('')
            if side in ('ref', 'both'):
                ref.append('')

    def uniq(xs):
        out = []
        for x in xs:
            if x not in out:
                out.append(x)
        return out[:3] or None

    opts['ignore_patterns'] = uniq(pats)
    if opts['ignore_patterns'] and max(
            [len(re.findall(r'[0-9a-f]+', ln)) for ln in ref + act] + [0]) > 5:
        # tdda's matching (and any faithful copy of it) takes time
        # exponential in matches-per-line x patterns: minutes for 7 numeric
        # fields and 3 patterns; long lines get one pattern
        opts['ignore_patterns'] = opts['ignore_patterns'][:1]
    opts['ignore_substrings'] = uniq(subs)
    opts['remove_lines'] = uniq(marks)
    return {'ref': ref, 'act': act, 'opts': opts}


# ------------------------------------------------------------------ spec

LINE_BREAKS = '\n\r\x0b\x0c\x1c\x1d\x1e\x85  '


def valid_lines(lines):
    return (isinstance(lines, list) and len(lines) <= 40
            and all(isinstance(s, str) and len(s) <= 120
                    and not any(c in LINE_BREAKS for c in s)
                    for s in lines))


def valid_opts(o):
    if not isinstance(o, dict):
        return False
    if set(o) != {'lstrip', 'rstrip', 'ignore_substrings', 'ignore_patterns',
                  'remove_lines', 'preprocess', 'max_permutation_cases'}:
        return False
    if not isinstance(o['lstrip'], bool) or not isinstance(o['rstrip'], bool):
        return False
    for (k, pool) in (('ignore_substrings', SUBSTRINGS),
                      ('ignore_patterns', PATTERN_TEXTS),
                      ('remove_lines', MARKERS + EDGE_MARKERS)):
        v = o[k]
        if v is not None and (not isinstance(v, list) or not v or any(
                x not in pool for x in v)):
            return False
    if o['preprocess'] not in [None] + PREPROCESSORS:
        return False
    m = o['max_permutation_cases']
    return isinstance(m, int) and not isinstance(m, bool) and 0 <= m <= 6


def normalizer(o):
    if o['lstrip'] and o['rstrip']:
        return lambda s: s.strip()
    if o['lstrip']:
        return lambda s: s.lstrip()
    if o['rstrip']:
        return lambda s: s.rstrip()
    return lambda s: s


def split_anchors(p):
    left = p.startswith('^')
    right = p.endswith('$') and not p.endswith('\\$')
    core = p[1:] if left else p
    core = core[:-1] if right else core
    return core, left, right


def pattern_equivalent(a, e, patterns):
    """
    a ~ e iff they factor as  u0 x1 u1 ... xk uk  with identical literal
    parts u and each pair (x_i in a, x_i in e) fully matched by one of the
    patterns (an anchored pattern only at the start / end of the line).
    """
    if a == e:
        return True
    if not patterns:
        return False
    cps = []
    for p in patterns:
        core, left, right = split_anchors(p)
        cps.append((re.compile(core), left, right))
    la, le = len(a), len(e)
    memo = {}

    def ends(cp, s, i):
        return [j for j in range(i + 1, len(s) + 1) if cp.fullmatch(s, i, j)]

    def eq(i, j):
        key = (i, j)
        if key in memo:
            return memo[key]
        memo[key] = False       # guards against cycles (none possible)
        res = False
        if i == la and j == le:
            res = True
        else:
            if i < la and j < le and a[i] == e[j] and eq(i + 1, j + 1):
                res = True
            if not res:
                for (cp, left, right) in cps:
                    if left and (i != 0 or j != 0):
                        continue
                    for i2 in ends(cp, a, i):
                        if right and i2 != la:
                            continue
                        for j2 in ends(cp, e, j):
                            if right and j2 != le:
                                continue
                            if eq(i2, j2):
                                res = True
                                break
                        if res:
                            break
                    if res:
                        break
        memo[key] = res
        return res

    return eq(0, 0)


def greedy_equivalent(a, e, patterns):
    """
    The algorithm tdda documents (check_patterns docstring): wrap the
    pattern as ^(.*)(p)(.*)$, require the same pattern to match both lines,
    and recurse on the text to its left and right.  Because the left (.*)
    is greedy this finds the LAST, SHORTEST-possible occurrence only, so it
    accepts fewer pairs than the statement's rule (pattern_equivalent).
    Used only to recognise the recorded finding exactly.
    """
    return _greedy(a, e, tuple(patterns), {})


def _greedy(a, e, patterns, memo):
    # (memoised on the pair of fragments: the plain recursion, like tdda's
    # own, is exponential in the number of matches in a line)
    if a == e:
        return True
    if (a, e) in memo:
        return memo[(a, e)]
    result = False
    for p in patterns:
        core, left, right = split_anchors(p)
        rx = re.compile(('^' if left else '^(?P<L>.*)') + '(?:%s)' % core
                        + ('$' if right else '(?P<R>.*)$'))
        me, ma = rx.match(e), rx.match(a)
        if not me or not ma:
            continue
        ok = True
        for side in ('L', 'R'):
            if side in rx.groupindex and not _greedy(
                    ma.group(side), me.group(side), patterns, memo):
                ok = False
                break
        if ok:
            result = True
            break
    memo[(a, e)] = result
    return result


def text_lines(lines, final_newline):
    """The lines of the text '\\n'.join(lines) [+ '\\n'] as any reader
    sees them (an empty last line without final newline is no line)."""
    t = '\n'.join(lines)
    if final_newline and lines:
        t += '\n'
    if t == '':
        return []
    parts = t.split('\n')
    if t.endswith('\n'):
        parts = parts[:-1]
    return parts


def spec(ref, act, o, equiv=None):
    """
    Returns (passes, info).  info: dict with the unexcused pairs (indices
    into the post-removal lists), counts, and which option decided.
    """
    pre = preprocess_fn(o['preprocess'])
    if pre:
        ref, act = pre(list(ref)), pre(list(act))
    if act and act[-1] == '':
        act = act[:-1]
    if ref and ref[-1] == '':
        ref = ref[:-1]
    rl = o['remove_lines'] or []
    act_keep = [i for (i, s) in enumerate(act) if not any(r in s for r in rl)]
    ref_keep = [i for (i, s) in enumerate(ref) if not any(r in s for r in rl)]
    a2 = [act[i] for i in act_keep]
    r2 = [ref[i] for i in ref_keep]
    info = {'act_removed': len(act) - len(a2), 'ref_removed': len(ref)
            - len(r2), 'act_keep': act_keep, 'ref_keep': ref_keep,
            'act_lines': act, 'ref_lines': ref}
    if len(a2) != len(r2):
        info['reason'] = 'line-count'
        info['unexcused'] = None
        return False, info
    norm = normalizer(o)
    unexcused = []
    used = set()
    for k, (a, r) in enumerate(zip(a2, r2)):
        na, nr = norm(a), norm(r)
        if na == nr:
            if a != r:
                used.add('strip')
            continue
        if any(s in r for s in (o['ignore_substrings'] or [])):
            used.add('ignore_substrings')
            continue
        if (equiv or pattern_equivalent)(na, nr,
                                         o['ignore_patterns'] or []):
            used.add('ignore_patterns')
            if not greedy_equivalent(na, nr, o['ignore_patterns'] or []):
                info['greedy_would_miss'] = True
            continue
        unexcused.append(k)
    info['unexcused'] = unexcused
    info['used'] = sorted(used)
    if not unexcused:
        info['reason'] = 'all-pairs-fine'
        return True, info
    if len(unexcused) <= o['max_permutation_cases']:
        la = sorted(norm(a2[k]) for k in unexcused)
        lr = sorted(norm(r2[k]) for k in unexcused)
        if la == lr:
            info['reason'] = 'permutation'
            info['used'] = sorted(used | {'max_permutation_cases'})
            return True, info
    info['reason'] = 'unexcused-difference'
    return False, info
