"""
SQLite materialisation of frame descriptions (C07, C08).

Only what SQLite and tdda's documented SQLite support carry is generated:
64-bit signed integers, finite reals, text without NUL, booleans as 0/1,
datetimes as 'YYYY-MM-DD HH:MM:SS' text (the parse format the driver uses).
Column names are unique ignoring case and contain no double quote (the API
quotes names as "name" without escaping); the table name is the plain
identifier `t` (the API interpolates it unquoted).
"""

import datetime
import hashlib
import io
import os
import sqlite3
import sys

from tv.core import call
from tv.gen import frames as F
from tv import refmodel as R

DECLS = {
    # (numeric / number: tdda's type for them is real, SQLite keeps the
    # integers stored in them as integers)
    'int64': ['integer', 'int', 'bigint', 'INTEGER', 'numeric', 'number'],
    'float64': ['real', 'float', 'double', 'REAL'],
    'boolean': ['boolean', 'bool'],
    'ostr': ['text', 'varchar', 'TEXT', 'text PRIMARY KEY'],
    'dt64s': ['datetime', 'date', 'timestamp'],
}


def _pick(options, key):
    h = int(hashlib.sha1(key.encode('utf-8')).hexdigest()[:6], 16)
    return options[h % len(options)]


def restrict_col(c):
    kind = c['kind']
    t = F.tdda_type(kind)
    cells = list(c['cells'])
    if t == 'int':
        nk = 'int64'
        cells = [None if v is None else max(-2**63, min(2**63 - 1, v))
                 for v in cells]
    elif t == 'real':
        nk = 'float64'
        out = []
        for v in cells:
            if isinstance(v, str):          # +-inf: SQLite has no literal
                v = 1.5e300 if v == 'inf' else -1.5e300
            elif v is not None:
                v = F.py_float(v, kind)
                if v == 0:
                    v = 0.0                 # SQLite does not keep -0.0
            out.append(v)
        cells = out
    elif t == 'bool':
        nk = 'boolean'
    elif t == 'string':
        nk = 'ostr'
    else:
        nk = 'dt64s'
        out = []
        for v in cells:
            if v is not None:
                d = R.as_dt(F.parse_dt(v)).replace(microsecond=0)
                v = d.isoformat()
            out.append(v)
        cells = out
    name = c['name'].replace('"', "'")
    return {'name': name, 'kind': nk, 'cells': cells,
            'decl': c.get('decl') or _pick(DECLS[nk][:3], name)}


def restrict_frame(frame):
    cols = []
    seen = set()
    for c in frame['cols']:
        c2 = restrict_col(c)
        base = c2['name']
        i = 1
        while sql_fold(c2['name']) in seen or not c2['name'].strip():
            i += 1
            c2['name'] = '%s_%d' % (base.strip() or 'col', i)
        seen.add(c2['name'].lower())
        cols.append(c2)
    return {'n': frame['n'], 'cols': cols}


def sql_fold(name):
    """SQLite folds only ASCII letters when it compares identifiers."""
    return ''.join(ch.lower() if ch.isascii() else ch for ch in name)


def valid_for_sqlite(frame):
    seen = set()
    for c in frame['cols']:
        if c['kind'] not in DECLS or c.get('decl') not in DECLS[c['kind']]:
            return False
        if 'PRIMARY KEY' in c['decl']:
            # (SQLite lets a text primary key hold NULLs, but no duplicates)
            nn_ = [v for v in c['cells'] if v is not None]
            if len(set(nn_)) != len(nn_) or sum(
                    1 for x in frame['cols'] if 'PRIMARY KEY' in x.get(
                        'decl', '')) > 1:
                return False
        nm = c['name']
        if '"' in nm or '\x00' in nm or sql_fold(nm) in seen or (
                not nm.strip()):
            return False
        seen.add(sql_fold(nm))
        for v in c['cells']:
            if v is None:
                continue
            if c['kind'] == 'int64' and not -2**63 <= v <= 2**63 - 1:
                return False
            if c['kind'] == 'float64' and (isinstance(v, str)):
                return False
            if c['kind'] == 'dt64s' and (len(v) != 19 or v[10] != 'T'):
                return False
    return True


def sql_value(kind, v):
    if v is None:
        return None
    if kind == 'boolean':
        return 1 if v else 0
    if kind == 'dt64s':
        return v.replace('T', ' ')
    if kind == 'float64':
        return float(v)
    return v


def quote_ident(name):
    return '"%s"' % name


def composite_key(desc):
    """The first two columns, when the description asks for a composite
    UNIQUE constraint and every pair of their values is distinct (each
    column on its own may well repeat)."""
    if desc.get('key') not in ('unique', 'primary') or len(desc['cols']) < 2:
        return None
    if desc['key'] == 'primary' and any('PRIMARY KEY' in c.get('decl', '')
                                        for c in desc['cols']):
        return None
    a, b = desc['cols'][0], desc['cols'][1]
    pairs = [(sql_value(a['kind'], x), sql_value(b['kind'], y))
             for (x, y) in zip(a['cells'], b['cells'])
             if x is not None and y is not None]
    if len(set(pairs)) != len(pairs):
        return None
    return [a['name'], b['name']]


def create_db(desc, path):
    if os.path.exists(path):
        os.remove(path)
    con = sqlite3.connect(path)
    cols = ', '.join('%s %s' % (quote_ident(c['name']), c['decl'])
                     for c in desc['cols'])
    key = composite_key(desc)
    if key:
        # (a composite PRIMARY KEY of an ordinary table may hold NULLs)
        cols += ', %s(%s)' % (
            'PRIMARY KEY' if desc['key'] == 'primary' else 'UNIQUE',
            ', '.join(quote_ident(k) for k in key))
    con.execute('CREATE TABLE t (%s)' % cols)
    rows = []
    for i in range(desc['n']):
        rows.append([sql_value(c['kind'], c['cells'][i])
                     for c in desc['cols']])
    if rows:
        con.executemany('INSERT INTO t VALUES (%s)'
                        % ', '.join('?' for _ in desc['cols']), rows)
    con.commit()
    con.close()


def connect(path):
    from tdda.constraints.db.drivers import database_connection
    return database_connection(dbtype='sqlite', db=path)


def quiet_call(fn, *a, **kw):
    so, se = sys.stdout, sys.stderr
    sys.stdout, sys.stderr = io.StringIO(), io.StringIO()
    try:
        return call(fn, *a, **kw)
    finally:
        sys.stdout, sys.stderr = so, se


def discover(desc, ctx, inc_rex=False, path=None, db=None):
    from tdda.constraints.db.constraints import discover_db_table
    if path is None:
        path = os.path.join(ctx.fresh_dir(), 'd.sqlite3')
        create_db(desc, path)
    if db is not None:      # the caller's long-lived connection
        return quiet_call(discover_db_table, 'sqlite', db, 't',
                          inc_rex=inc_rex)
    db = connect(path)
    try:
        return quiet_call(discover_db_table, 'sqlite', db, 't',
                          inc_rex=inc_rex)
    finally:
        db.connection.close()


def verify(path, tdda_path, db=None):
    from tdda.constraints.db.constraints import verify_db_table
    if db is not None:
        return quiet_call(verify_db_table, 'sqlite', db, 't', tdda_path,
                          testing=True)
    db = connect(path)
    try:
        return quiet_call(verify_db_table, 'sqlite', db, 't', tdda_path,
                          testing=True)
    finally:
        db.connection.close()


def truth_values(c):
    """Python ground truth as the table holds it."""
    k = c['kind']
    if k == 'boolean':
        return [None if v is None else (1 if v else 0) for v in c['cells']]
    if k == 'dt64s':
        return [None if v is None else datetime.datetime.fromisoformat(v)
                for v in c['cells']]
    if k == 'float64':
        return [None if v is None else float(v) for v in c['cells']]
    return list(c['cells'])


def discovered(c, vals, n):
    """Expected discovery result for a SQLite column."""
    k = c['kind']
    base_kind = {'boolean': 'int64'}.get(k, k)
    d = R.discovered(base_kind, vals, n)
    d['type'] = {'int64': 'int', 'float64': 'real', 'boolean': 'bool',
                 'ostr': 'string', 'dt64s': 'date'}[k]
    if c.get('decl') in ('numeric', 'number'):
        d['type'] = 'real'
        if 'no_duplicates' in d:
            d['no_duplicates'] = 'either'
    if k == 'boolean':
        # booleans are held as 0/1: distinct-count based constraints are
        # those of an integer column only if the discoverer counts them
        # (it counts for 'string' and 'int' types only)
        if 'no_duplicates' in d:
            d['no_duplicates'] = 'either'
    return d
