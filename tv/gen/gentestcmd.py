"""
Deterministic shell commands for gentest (C11, C12): a case describes what
the command prints and writes; the harness materialises it as `sh ./cmd.sh`
which only cats / copies payload files kept OUTSIDE the working directory,
so every run produces the same bytes.
"""

import hashlib
import os
import re
import subprocess
import sys

from hypothesis import strategies as st

from tv.core import repo_root

WORDS = ['alpha', 'beta', 'Gamma', 'total', 'rows', 'value', 'x', 'OK',
         'done', 'result:', 'é', '中文', 'n=7', 'a_b', 'mean', 'std']
SPECIAL = [
    '31/02/2020', '1.2.0', 'version 1.2.0 build 15', '2020-13-45',
    '1 jan 0000', '{TODAY}', '12:34:56', '23:59', 'v1.2.3', '{CWD}', '{HOME}',
    '{TMPDIR}', '{USER}', '{HOST}', "it's", 'say "hi"', "'''", '"""',
    'back\\slash', '100%', '%s %d', '^a.*b$', '[x]', '(y)', '{z}', 'a|b',
    '$HOME', '`cmd`', 'tab\there', '  indented', 'trailing  ', '2024-02-30',
    '99/99/9999', '3.14.15', '12-25-2021 10:11:12', 'Jan 5, 2021',
    '5 March 2020 09:00', '0001-01-01', '2021-06-07T08:09:10Z', '#hash',
    '\\d+', '\\n', '127.0.0.1', 'user@example.com', 'C:\\Users\\x',
    # valid UTF-8 that encoding sniffers take for something else
    '~{1!~} caf\u00e9', '+AGE-+AGI- d\u00e9j\u00e0', '\ufeffBOM inside',
    # two machine-specific things on one line
    'copied {CWD}/in.dat to {TMPDIR}/out.dat', '{USER}@{HOST}:{HOME}',
    'schema {TODAY_YY} status ok',
    # month names as people abbreviate them
    '12 Sept 2019', 'Sept 3, 2021 report', 'June 1 2020', '3 Sep. 2019',
    # a path under the home directory (which may hold the user's name)
    'cache at {HOME}/.cache/app n=12']
# extra (ignored) arguments on the command line: they end up, quoted, in the
# command string that gentest embeds in the generated script
CMD_ARGS = ['plain', 'two words', "it's", 'say "hi"', 'C:\\Users\\x', '\\N{x}',
            '\\x41', '\\u12', '100%', '%s', 'é', "'''", '"""', '$HOME', 'a;b',
            'back\\', '#c', '-n', '{z}']
MACHINE_TOKENS = ['{TODAY}', '{CWD}', '{HOME}', '{TMPDIR}', '{USER}',
                  '{HOST}']


def file_lines(fl):
    """All the lines of a text output file."""
    return ['row %d ok' % k for k in range(fl.get('long_prefix') or 0)] + (
        list(fl['lines']))


def line_strategy(plain=False):
    pool = WORDS if plain else WORDS + SPECIAL
    return st.lists(st.sampled_from(pool), min_size=0, max_size=4).map(
        ' '.join)


def text_strategy(plain=False):
    return st.lists(line_strategy(plain), min_size=0, max_size=5)


@st.composite
def out_file(draw, i):
    kind = draw(st.sampled_from(['text', 'text', 'binary']))
    if kind == 'text':
        name = draw(st.sampled_from(['out%d.txt' % i, 'result%d.csv' % i,
                                     'report %d.txt' % i, 'Data%d.json' % i,
                                     'STDOUT' if i == 0 else 'x%d.md' % i,
                                     # names of the tests every generated
                                     # script has anyway
                                     ['stdout', 'stderr', 'exit.code',
                                      'no exception'][i % 4],
                                     # a name that is also a glob pattern
                                     'log[%d].txt' % i,
                                     # names that differ only in characters
                                     # a Python identifier cannot hold
                                     draw(st.sampled_from(
                                         ['rep-1.txt', 'rep_1.txt',
                                          'rep 1.txt', 'rep.1.txt']))]))
        f = {'name': name, 'kind': 'text',
             'lines': draw(text_strategy()),
             'final_newline': draw(st.booleans())}
        if draw(st.integers(0, 4)) == 0:
            # a long file: more plain-ASCII lines than any sniffing of the
            # head of the file would read, then the drawn lines, then one
            # that is certainly not ASCII
            f['long_prefix'] = draw(st.sampled_from([201, 230, 1100]))
            if draw(st.booleans()):
                f['lines'] = f['lines'] + ['caf\u00e9 total \u20ac 5']
        return f
    name = draw(st.sampled_from(['blob%d.bin' % i, 'img%d.png' % i,
                                 'data%d.dat' % i]))
    head = b'\x89PNG\r\n\x1a\n' if name.endswith('.png') else b''
    body = draw(st.binary(min_size=1, max_size=40))
    f = {'name': name, 'kind': 'binary', 'hex': (head + body).hex()}
    if draw(st.integers(0, 2)) == 0:
        # a large file whose size is a whole number of I/O blocks
        f['pad_to'] = draw(st.sampled_from([4096, 8192, 16384, 65536]))
    return f


def file_bytes(fl):
    """All the bytes of a binary output file."""
    data = bytes.fromhex(fl['hex'])
    pad = fl.get('pad_to') or 0
    return data + bytes((i * 7 + 1) % 251 for i in range(max(
        0, pad - len(data))))


# where the output files go and how gentest is told about them; the
# 'outside' forms are directories that are not under the working directory
# `<root>/work`: elsewhere, a sibling whose name starts with the working
# directory's name, and the same sibling given as a relative ../ path
HOWS = ['explicit', 'default', 'subdir', 'glob', 'outside',
        'outside_sibling', 'outside_rel', 'tmpdir', 'tmpdir_sub']
# (tmpdir, tmpdir_sub: the command writes its files under $TMPDIR, the
# scratch area gentest hands it, or in a sub-directory it makes there)
TMPDIR_HOWS = {'tmpdir': '', 'tmpdir_sub': 'report/'}
OUTSIDE = {'outside': 'elsewhere', 'outside_sibling': 'work_out',
           'outside_rel': 'work2'}


@st.composite
def command_case(draw, tier='quick'):
    nfiles = draw(st.sampled_from([0, 0, 1, 1, 2, 3]))
    files = []
    names = set()
    for i in range(nfiles):
        f = draw(out_file(i))
        if f['name'].lower() in names:
            continue
        names.add(f['name'].lower())
        files.append(f)
    texts = [f for f in files if f['kind'] == 'text']
    if len(texts) >= 2 and draw(st.integers(0, 2)) == 0 and not any(
            f['name'].startswith('rep') for f in files):
        # two outputs whose names differ only in characters that a Python
        # identifier cannot hold (their tests must still be two tests)
        pair = draw(st.sampled_from([['rep-1.txt', 'rep_1.txt'],
                                     ['rep 1.txt', 'rep.1.txt'],
                                     ['rep_1.txt', 'rep 1.txt']]))
        texts[0]['name'], texts[1]['name'] = pair
    two_dirs = False
    if len(texts) >= 2 and not texts[0]['name'].startswith('rep') and draw(
            st.integers(0, 4)) == 0:
        # two outputs with one base name, in two directories, named
        # explicitly; one plain ASCII, the other not
        texts[0]['dir'], texts[1]['dir'] = 'da', 'db'
        texts[1]['name'] = texts[0]['name']
        texts[0]['lines'] = [ln.encode('ascii', 'ignore').decode()
                             for ln in texts[0]['lines']] + ['plain ascii']
        texts[1]['lines'] = texts[1]['lines'] + ['d\u00e9j\u00e0 vu']
        two_dirs = True
    # (-9, -15: the command's own shell dies by that signal)
    exit_code = draw(st.sampled_from([0, 0, 0, 0, 0, 0, 1, 1, 2, 2, 3, 3, -9,
                                      -15]))
    how = draw(st.sampled_from(HOWS))
    if not files:
        how = 'default'
    if two_dirs:
        how = 'explicit'
    if how == 'glob' and any('.' not in f['name'] for f in files):
        how = 'explicit'    # no extension to build a sensible glob from
    n_iter = draw(st.sampled_from([1, 2, 2, 2, 3]))
    if any(f.get('long_prefix') for f in files) and draw(st.booleans()):
        n_iter = 1      # nothing but the script writer reads the file
    return {
        'stdout': draw(text_strategy()),
        'stderr': draw(st.one_of(st.just([]), text_strategy())),
        'files': files,
        'exit': exit_code,
        'how': how,
        'n': n_iter,
        'no_stdout': draw(st.sampled_from([False, False, False, True])),
        'no_stderr': draw(st.sampled_from([False, False, False, True])),
        'script': draw(st.sampled_from(['rel', 'abs'])),
        'bystanders': draw(st.booleans()),
        'old_test': draw(st.sampled_from([False, False, True])),
        'args': draw(st.lists(st.sampled_from(CMD_ARGS), max_size=2)),
        'neighbour': draw(st.integers(0, 5)) == 0,
    }


def valid_case(case):
    try:
        for k in ('stdout', 'stderr'):
            if not isinstance(case[k], list) or not all(
                    isinstance(x, str) and '\n' not in x and '\r' not in x
                    for x in case[k]):
                return False
        names = set()
        for f in case['files']:
            key = (f.get('dir') or '', f['name'].lower())
            if key in names or '/' in f['name'] or f.get('dir') not in (
                    None, 'da', 'db'):
                return False
            names.add(key)
            if f['kind'] == 'text':
                if not all(isinstance(x, str) and '\n' not in x
                           and '\r' not in x for x in f['lines']):
                    return False
                lp = f.get('long_prefix')
                if lp is not None and not (isinstance(lp, int)
                                           and 0 <= lp <= 2000):
                    return False
            else:
                if not bytes.fromhex(f['hex']):
                    return False
                if f.get('pad_to') not in (None, 4096, 8192, 16384, 65536):
                    return False
        return (case['exit'] in (0, 1, 2, 3, -9, -15)
                and case['how'] in HOWS
                and all(isinstance(a, str) and a in CMD_ARGS
                        for a in case.get('args', []))
                and (case['files'] or case['how'] == 'default')
                and not (case['how'] == 'glob' and any(
                    '.' not in f['name'] for f in case['files']))
                and case['n'] in (1, 2, 3)
                and case['script'] in ('rel', 'abs'))
    except Exception:
        return False


def substitute(line, env):
    for (k, v) in env.items():
        line = line.replace('{%s}' % k, v)
    return line


def text_of(lines, env, final_newline=True):
    t = '\n'.join(substitute(ln, env) for ln in lines)
    if lines and final_newline:
        t += '\n'
    return t


class Workdir(object):
    def __init__(self, case, root, ctx_env):
        self.case = case
        self.root = root
        self.w = os.path.join(root, 'work')
        self.p = os.path.join(root, 'payload')
        self.tmp = os.path.join(root, 'gt-tmp')
        self.home = os.path.join(root, 'home')
        if len(case['stdout']) % 2 == 1:
            # the home directory's path holds the user's name
            self.home = os.path.join(root, 'home', 'tvuserzq')
        if len(case['stderr']) % 2 == 1:
            # the working directory lies under the home directory
            self.home = root
        for d in (self.w, self.p, self.tmp, self.home):
            os.makedirs(d, exist_ok=True)
        self.env = {
            'TODAY': ctx_env['today'],
            # today's date with a two-digit year (dd.mm.yy): a version-like
            # stamp, not one of the date forms gentest recognises
            'TODAY_YY': '%s.%s.%s' % (ctx_env['today'][8:10],
                                     ctx_env['today'][5:7],
                                     ctx_env['today'][2:4]),
            'CWD': self.w, 'HOME': self.home,
            'TMPDIR': self.tmp, 'USER': 'tvuserzq', 'HOST': ctx_env['host'],
        }
        self.outdir = 'outdir' if case['how'] == 'subdir' else ''
        if case['how'] in OUTSIDE:
            # a directory outside the working directory and outside
            # $TMPDIR; the files are named explicitly
            self.outdir = os.path.join(root, OUTSIDE[case['how']])
            if case['how'] == 'outside_rel':
                self.outdir = os.path.join('..', OUTSIDE[case['how']])
        if self.outdir:
            os.makedirs(os.path.join(self.w, self.outdir), exist_ok=True)
        for f in case['files']:
            if f.get('dir'):
                os.makedirs(os.path.join(self.w, f['dir']), exist_ok=True)
        # the output files already exist (the command was run before) and
        # the command rewrites them keeping an OLD modification time
        # (cp -p, rsync -t, tar x): only their status-change time says
        # that they were written
        self.preexisting = (case['how'] in ('default', 'subdir')
                            and bool(case['files'])
                            and len(case['stderr']) % 2 == 0)
        self.write_payloads()
        self.write_cmd(case['exit'])
        if self.preexisting:
            for fl in case['files']:
                op = os.path.join(self.w, self.out_name(fl))
                with open(op, 'wb') as f:
                    f.write(b'stale output of an earlier run\n')
                os.utime(op, (1550000000, 1550000000))
        self.bystanders = {}
        self.neighbour_done = False
        if case.get('bystanders'):
            # names that no generated glob (*.txt, *.bin, ...) matches:
            # a file matched by a glob the user gives IS declared an output
            for (name, data) in (('log0.txt', b'not an output\n'),
                                 ('log1.txt', b'not an output\n'),
                                 ('notes.keep', b'keep me\n'),
                                 ('data.keepbin', b'\x00\x01\x02'),
                                 ('sub/inner.keep', b'inner\n')):
                if case['how'] == 'glob' and name.endswith('.txt'):
                    continue
                p = os.path.join(self.w, name)
                os.makedirs(os.path.dirname(p), exist_ok=True)
                with open(p, 'wb') as f:
                    f.write(data)
                if len(case['stdout']) % 2 == 0:
                    # an old file whose status changed later than its
                    # content (chmod, mv, extraction from an archive)
                    os.utime(p, (1500000000, 1500000000))
        if case.get('old_test'):
            with open(os.path.join(self.w, 'test_x.py'), 'w') as f:
                f.write('# an older generated test\n')
            os.makedirs(os.path.join(self.w, 'ref', 'x'), exist_ok=True)
            with open(os.path.join(self.w, 'ref', 'x', 'STALE'), 'w') as f:
                f.write('stale reference\n')

    def payload_path(self, name):
        return os.path.join(self.p, name)

    def write_payloads(self):
        c = self.case
        with open(self.payload_path('stdout.txt'), 'w',
                  encoding='utf-8', newline='') as f:
            f.write(text_of(c['stdout'], self.env))
        with open(self.payload_path('stderr.txt'), 'w',
                  encoding='utf-8', newline='') as f:
            f.write(text_of(c['stderr'], self.env))
        for (i, fl) in enumerate(c['files']):
            self.write_file_payload(i, fl)

    def write_file_payload(self, i, fl):
        p = self.payload_path('f%d' % i)
        if fl['kind'] == 'text':
            with open(p, 'w', encoding='utf-8', newline='') as f:
                f.write(text_of(file_lines(fl), self.env,
                                fl.get('final_newline', True)))
        else:
            with open(p, 'wb') as f:
                f.write(file_bytes(fl))
        if self.preexisting:
            os.utime(p, (1500000000, 1500000000))

    def out_name(self, fl):
        if fl.get('dir'):
            return os.path.join(fl['dir'], fl['name'])
        return os.path.join(self.outdir, fl['name']) if self.outdir \
            else fl['name']

    def write_cmd(self, exit_code, skip=None):
        lines = ['cat "%s"' % self.payload_path('stdout.txt'),
                 'cat "%s" 1>&2' % self.payload_path('stderr.txt')]
        sub = TMPDIR_HOWS.get(self.case['how'])
        if sub is None and len(self.case['stderr']) % 3 == 0 and (
                self.case['n'] >= 2):
            # the scratch area is named, but nothing is written there
            # (with one run only gentest cannot tell that the name varies)
            lines.append('echo "scratch area $TMPDIR"')
        if sub:
            lines.append('mkdir -p "$TMPDIR/%s"' % sub)
        for (i, fl) in enumerate(self.case['files']):
            if skip is not None and i == skip:
                continue
            if sub is not None:
                lines.append('cp "%s" "$TMPDIR/%s%s"' % (
                    self.payload_path('f%d' % i), sub, fl['name']))
                if len(self.case['stdout']) % 2 == 0 and (
                        self.case['n'] >= 2):
                    # (what varies from run to run is only recognised when
                    # gentest runs the command more than once)
                    lines.append('echo "wrote $TMPDIR/%s%s"'
                                 % (sub, fl['name']))
                continue
            lines.append('cp %s"%s" "%s"' % (
                '-p ' if self.preexisting else '',
                self.payload_path('f%d' % i), self.out_name(fl)))
        if exit_code < 0:
            lines.append('kill -%d $$' % -exit_code)
        else:
            lines.append('exit %d' % exit_code)
        with open(os.path.join(self.w, 'cmd.sh'), 'w') as f:
            f.write('\n'.join(lines) + '\n')

    def command(self):
        import shlex
        args = self.case.get('args') or []
        # (exec: the shell that gentest starts IS the script's shell, so
        # that a signal it dies by is the command's own fate)
        pre = ['exec'] if self.case['exit'] < 0 else []
        return ' '.join(pre + ['sh', './cmd.sh']
                        + [shlex.quote(a) for a in args])

    def ref_args(self):
        how = self.case['how']
        if how == 'explicit' or how in OUTSIDE:
            return [self.out_name(f) for f in self.case['files']]
        if how == 'subdir':
            return ['outdir']
        if how == 'glob':
            exts = sorted(set(os.path.splitext(f['name'])[1]
                              for f in self.case['files']))
            return ['*' + e for e in exts]
        return []

    def script_arg(self):
        return ('test_x.py' if self.case['script'] == 'rel'
                else os.path.join(self.w, 'test_x.py'))

    def pythonpath(self):
        """In a third of the cases the machine's own host name does not
        resolve (a container without an /etc/hosts entry): a sitecustomize
        module on the path makes socket.gethostbyname(own name) fail the
        way the resolver does."""
        if len(self.case['stdout']) % 3 != 2:
            return repo_root()
        shim = os.path.join(self.root, 'no-dns')
        if not os.path.isdir(shim):
            os.makedirs(shim)
            with open(os.path.join(shim, 'sitecustomize.py'), 'w') as f:
                f.write('import socket\n'
                        '_resolve = socket.gethostbyname\n'
                        'def gethostbyname(name):\n'
                        '    if name == socket.gethostname():\n'
                        '        raise socket.gaierror(-2, "Name or service '
                        'not known")\n'
                        '    return _resolve(name)\n'
                        'socket.gethostbyname = gethostbyname\n')
        return repo_root() + os.pathsep + shim

    def subenv(self):
        env = dict(os.environ)
        env.update({'PYTHONPATH': self.pythonpath(), 'HOME': self.home,
                    'LOGNAME': 'tvuserzq', 'USER': 'tvuserzq',
                    'TMPDIR': self.tmp, 'PYTHONIOENCODING': 'utf-8',
                    'PYTHONHASHSEED': '0', 'PYTHONDONTWRITEBYTECODE': '1',
                    'COLUMNS': '200'})
        env.pop('TMPDIR_SET_BY_GENTEST', None)
        return env

    def neighbour_script(self):
        """Another test, generated earlier in the same directory, whose
        name extends this one's (test_xy.py beside test_x.py) or differs
        from it by one more underscore (test__x.py, references in
        ref/_x/)."""
        if not self.case.get('neighbour'):
            return None
        return ('test__x.py' if len(self.case['stdout']) % 2 == 0
                else 'test_xy.py')

    def generate_neighbour(self):
        name = self.neighbour_script()
        if name is None or self.neighbour_done:
            return
        self.neighbour_done = True
        subprocess.run([sys.executable, '-m', 'tdda.constraints.console',
                        'gentest', 'echo neighbour', name, '.', '-n', '1'],
                       cwd=self.w, env=self.subenv(),
                       stdout=subprocess.PIPE, stderr=subprocess.PIPE,
                       text=True, encoding='utf-8', errors='replace',
                       timeout=300)

    def run_neighbour(self):
        return subprocess.run([sys.executable,
                               os.path.join(self.w, self.neighbour_script())],
                              cwd=self.w, env=self.subenv(),
                              stdout=subprocess.PIPE, stderr=subprocess.PIPE,
                              text=True, encoding='utf-8', errors='replace',
                              timeout=300)

    def generate(self):
        c = self.case
        self.generate_neighbour()
        argv = [sys.executable, '-m', 'tdda.constraints.console', 'gentest',
                self.command(), self.script_arg()] + self.ref_args()
        argv += ['-n', str(c['n'])]
        if c['no_stdout']:
            argv.append('--no-stdout')
        if c['no_stderr']:
            argv.append('--no-stderr')
        if c['exit'] != 0:
            argv.append('--non-zero-exit')
        return subprocess.run(argv, cwd=self.w, env=self.subenv(),
                              stdout=subprocess.PIPE, stderr=subprocess.PIPE,
                              text=True, encoding='utf-8', errors='replace',
                              timeout=300)

    def run_script(self):
        return subprocess.run([sys.executable,
                               os.path.join(self.w, 'test_x.py')],
                              cwd=self.w, env=self.subenv(),
                              stdout=subprocess.PIPE, stderr=subprocess.PIPE,
                              text=True, encoding='utf-8', errors='replace',
                              timeout=300)

    def snapshot(self, exclude=()):
        out = {}
        for root, dirs, files in os.walk(self.w):
            for f in files:
                p = os.path.join(root, f)
                rel = os.path.relpath(p, self.w)
                if any(rel == e or rel.startswith(e + os.sep)
                       for e in exclude):
                    continue
                with open(p, 'rb') as fh:
                    out[rel] = hashlib.sha1(fh.read()).hexdigest()
        return out


FAIL_RE = re.compile(r'^(FAIL|ERROR): (\w+) ', re.M)


def failing_tests(result):
    return sorted(set(m.group(2) for m in FAIL_RE.finditer(
        result.stderr + '\n' + result.stdout)))


def test_name_for(filename):
    return 'test_' + ''.join(c if c.isalnum() else '_'
                             for c in os.path.basename(filename))
