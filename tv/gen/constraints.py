"""
G-constraints: hand-built constraint sets in the documented .tdda format,
placed relative to the generated data (on, just inside and just outside each
boundary), for the field types where the format document gives the kind a
meaning.
"""

import datetime
import math
import sys

from hypothesis import strategies as st

from tv.gen import frames as F
from tv import refmodel as R

PRECISIONS = [None, 'open', 'closed', 'fuzzy']
SIGNS = ['positive', 'non-negative', 'zero', 'non-positive', 'negative',
         'null']
TYPES = ['bool', 'int', 'real', 'string', 'date']

REX_POOL = [r'^[a-z]+$', r'^[A-Z]+$', r'^\d+$', r'^[0-9]+$', r'^.*$', r'^$',
            r'^[a-z]{1,3}$', r'^\w+$', r'^[A-Za-z0-9]*$', r'^a', r'^.$',
            r'^[^\W\d_]+$', r'^\s*\S+\s*$', r'^x\d$', r'^[\w\s]+$',
            # groups, back-references (numbered and named), alternation
            # with and without a group, inline flags: each expression of a
            # list is an expression of its own
            r'^([a-z])\1$', r'^(\w)(\w)\2\1$', r'^(a|b)c$', r'^a|b$',
            r'^(?P<d>\d)(?P=d)$', r'(?i)^abc$', r'^(?:ab)+$',
            r'^(a)(b)?c$']


def unspecified_type_case(value, atype):
    """
    A type constraint that allows bool but neither int nor real, checked
    against a real column: the code accepts whole-valued reals under sloppy
    checking, the documentation does not mention this promotion.  Left
    unspecified, so not generated (DESIGN C02).
    """
    allowed = value if isinstance(value, list) else [value]
    return (atype == 'real' and 'bool' in allowed and 'real' not in allowed
            and 'int' not in allowed)


def nextafter(x, up):
    return math.nextafter(x, math.inf if up else -math.inf)


def fmt_dt(d):
    d = R.as_dt(d)
    day = '%04d-%02d-%02d' % (d.year, d.month, d.day)
    if d.microsecond:
        return day + ' %02d:%02d:%02d.%06d' % (d.hour, d.minute, d.second,
                                               d.microsecond)
    if (d.hour, d.minute, d.second) == (0, 0, 0):
        return day
    return day + ' %02d:%02d:%02d' % (d.hour, d.minute, d.second)


DATE_SPELLINGS = ['slash', 'nopad', 'T', 'slash-nopad']


def fmt_dt_any(text, spelling):
    """Another of the spellings the loader reads for the same instant."""
    d = R.parse_date_bound(text)
    sep = '/' if 'slash' in spelling else '-'
    f = '%d' if 'nopad' in spelling else '%02d'
    day = ('%04d' + sep + f + sep + f) % (d.year, d.month, d.day)
    if ' ' not in text and 'T' not in text:
        return day
    t = ('T' if spelling == 'T' else ' ') + (f + ':%02d:%02d') % (
        d.hour, d.minute, d.second)
    if d.microsecond:
        t += '.%06d' % d.microsecond
    return day + t


@st.composite
def respell_dates(draw, cons):
    """Date bounds of date fields in another accepted spelling."""
    for fc in cons['fields'].values():
        if fc.get('type') != 'date':
            continue
        for k in ('min', 'max'):
            v = fc.get(k)
            if v is None or draw(st.integers(0, 2)) != 0:
                continue
            sp = draw(st.sampled_from(DATE_SPELLINGS))
            if isinstance(v, dict):
                if isinstance(v.get('value'), str):
                    v['value'] = fmt_dt_any(v['value'], sp)
            elif isinstance(v, str):
                fc[k] = fmt_dt_any(v, sp)
    return cons


def numeric_bounds(stat, atype, eps_candidates):
    """Candidate bounds around a data extreme `stat`."""
    out = [stat, 0, 1, -1]
    if isinstance(stat, bool):
        stat = int(stat)
        out = [0, 1, 0.5, True, False, 2, -1]
    if isinstance(stat, int):
        out += [stat - 1, stat + 1, float(stat) if abs(stat) < 2**53 else stat]
        for e in eps_candidates:
            if e not in (0, None) and stat != 0 and abs(stat) < 10**15:
                # bounds whose fuzzed value lands exactly on / next to stat
                out += [stat * 2 if e == 0.5 else stat, stat * 2 + 1,
                        stat * 2 - 1]
                if stat % 2 == 0:
                    out += [stat // 2 * 4 // 3]
    else:
        if math.isinf(stat):
            out += [1.797e308, -1.797e308, stat]
        else:
            out += [nextafter(stat, True), nextafter(stat, False),
                    stat + 1.0 if abs(stat) < 1e300 else stat,
                    stat - 1.0 if abs(stat) < 1e300 else stat,
                    stat * 2 if abs(stat) < 1e300 else stat,
                    stat / 0.99 if abs(stat) < 1e300 else stat,
                    stat / 1.01, stat / 0.5 if abs(stat) < 1e300 else stat,
                    stat / 1.5]
            if float(stat).is_integer() and abs(stat) < 2**53:
                out.append(int(stat))
    res = []
    for v in out:
        if isinstance(v, float) and (math.isnan(v) or math.isinf(v)):
            continue        # +-inf / NaN are not JSON
        res.append(v)
    return res


def date_bounds(stat):
    d = R.as_dt(stat)
    out = [d]
    for delta in (datetime.timedelta(seconds=1), datetime.timedelta(days=1),
                  datetime.timedelta(microseconds=1)):
        for sgn in (1, -1):
            try:
                out.append(d + sgn * delta)
            except OverflowError:
                pass
    out.append(datetime.datetime(1970, 1, 1))
    out.append(datetime.datetime(d.year, d.month, d.day))
    return [fmt_dt(x) for x in out]


@st.composite
def field_constraints(draw, col, n, inside=False, string_bounds=False):
    """Constraints for one existing column, placed around its data."""
    kind = col['kind']
    values = F.py_values(col)
    nn = R.nonnull(values)
    atype = R.actual_type(kind, values)
    c = {}
    kinds_avail = ['type', 'max_nulls', 'no_duplicates']
    if atype in ('int', 'real', 'bool'):
        kinds_avail += ['min', 'max', 'sign', 'min', 'max']
    elif atype == 'date':
        kinds_avail += ['min', 'max', 'min', 'max']
    elif atype == 'string':
        kinds_avail += ['min_length', 'max_length', 'allowed_values', 'rex']
        if string_bounds and kind in ('ostr', 'string') and all(
                isinstance(v, str) for v in nn):
            # "the minimum / maximum allowed value in a field" also for
            # text: ordered as Python orders strings
            kinds_avail += ['min', 'max']
    chosen = draw(st.lists(st.sampled_from(kinds_avail), min_size=1,
                           max_size=5, unique=True))
    if atype == 'date' and ('min' in chosen or 'max' in chosen):
        # a date-valued bound is read as a date only beside "type": "date"
        c['type'] = 'date'
        chosen = [k for k in chosen if k != 'type']
    for k in chosen:
        if draw(st.integers(0, 11)) == 0:
            c[k] = None                      # null-valued constraint
            continue
        if k == 'type':
            if draw(st.booleans()):
                c[k] = draw(st.sampled_from([atype, atype] + TYPES))
            else:
                c[k] = draw(st.lists(st.sampled_from(TYPES + [atype]),
                                     min_size=1, max_size=3, unique=True))
            if unspecified_type_case(c[k], atype):
                c[k] = atype
        elif k == 'max_nulls':
            nnull = len(values) - len(nn)
            c[k] = draw(st.sampled_from([max(0, nnull - 1), nnull, nnull + 1,
                                         0, 1]))
        elif k == 'no_duplicates':
            c[k] = draw(st.sampled_from([True, True, False]))
        elif k in ('min', 'max') and atype == 'string':
            stat = (min(nn) if k == 'min' else max(nn)) if nn else 'm'
            v = draw(st.sampled_from([stat, stat + 'a', stat[:-1], '',
                                      '\U0010ffff', 'm', stat.upper(),
                                      stat + ' ']))
            prec = draw(st.sampled_from([None, 'closed', 'open', 'open']))
            c[k] = v if prec is None else {'value': v, 'precision': prec}
        elif k in ('min', 'max'):
            if not nn:
                stat = (datetime.datetime(2000, 1, 1) if atype == 'date'
                        else 0)
            else:
                other_end = draw(st.integers(0, 7)) == 0
                want_min = (k == 'min') != other_end
                stat = min(nn) if want_min else max(nn)
                if len(nn) > 1 and draw(st.integers(0, 1 if inside
                                                    else 5)) == 0:
                    stat = sorted(nn)[len(nn) // 2]     # inside the range
            if atype == 'date':
                v = draw(st.sampled_from(date_bounds(stat)))
            else:
                v = draw(st.sampled_from(numeric_bounds(
                    stat, atype, [0.01, 0.5])))
            prec = draw(st.sampled_from(PRECISIONS))
            c[k] = v if prec is None else {'value': v, 'precision': prec}
        elif k == 'sign':
            c[k] = draw(st.sampled_from(SIGNS))
        elif k in ('min_length', 'max_length'):
            L = [len(s) for s in nn] or [0]
            stat = min(L) if k == 'min_length' else max(L)
            c[k] = draw(st.sampled_from([max(0, stat - 1), stat, stat + 1,
                                         0]))
        elif k == 'allowed_values':
            distinct = sorted(set(nn))
            mode = draw(st.sampled_from(['exact', 'minus', 'plus', 'other']))
            if mode == 'exact' or not distinct:
                c[k] = list(distinct)
            elif mode == 'minus':
                i = draw(st.integers(0, len(distinct) - 1))
                c[k] = distinct[:i] + distinct[i + 1:]
            elif mode == 'plus':
                c[k] = distinct + ['extra value']
            else:
                c[k] = ['a', 'b']
        elif k == 'rex':
            c[k] = draw(st.lists(st.sampled_from(REX_POOL),
                                 min_size=draw(st.sampled_from([1, 1, 1, 0])),
                                 max_size=3, unique=True))
            doubled = [v for v in nn if isinstance(v, str)
                       and v in ('aa', 'abba', '11', 'abab')]
            if doubled and draw(st.booleans()):
                # every other value gets a (grouped) expression of its
                # own, and the doubled ones are matched only by expressions
                # with back-references - whose group numbers are their own
                import re as _re
                others = sorted(set(v for v in nn if isinstance(v, str)
                                    and v not in doubled))[:4]
                c[k] = (['^(%s)$' % _re.escape(v) for v in others]
                        + [r'^([a-z0-9])\1$', r'^(\w)(\w)\2\1$',
                           r'^(?P<p>\w\w)(?P=p)$'])
    if atype != 'date' and c.get('type') == 'date' and (
            'min' in c or 'max' in c):
        # "type": "date" makes the loader read min/max as date strings; a
        # numeric bound beside it is outside the documented format
        c['type'] = ['date']
    # JSON objects are unordered: the order of kinds within a field is free
    return dict(draw(st.permutations(list(c.items()))))


@st.composite
def constraint_set(draw, frame, missing_field=True, inside=False,
                   string_bounds=False):
    fields = {}
    for col in frame['cols']:
        if draw(st.integers(0, 5)) != 0 or len(frame['cols']) == 1:
            fields[col['name']] = draw(field_constraints(col, frame['n'],
                                                         inside,
                                                         string_bounds))
    if missing_field and draw(st.integers(0, 4)) == 0:
        name = 'no such field'
        if name not in [c['name'] for c in frame['cols']]:
            fields[name] = draw(st.sampled_from([
                {'type': 'int'}, {'min': 0, 'max': 9},
                {'type': 'string', 'min_length': 1},
                {'max_nulls': 0, 'no_duplicates': True},
                {'sign': 'positive'}, {'allowed_values': ['a']},
                {'rex': ['^a$']}]))
    return {'fields': fields}
