"""
A-text: the shared character classes (DESIGN section 3).
Lone surrogates are never produced.
"""

from hypothesis import strategies as st

LOWER = 'abcdefghijklmnopqrstuvwxyz'
UPPER = 'ABCDEFGHIJKLMNOPQRSTUVWXYZ'
DIGITS = '0123456789'
HEXL = '0123456789abcdef'
PUNCT = '!"#$%&\'()*+,-./:;<=>?@[\\]^_`{|}~'
PUNCT_HOT = '^-]\\[.*+?(){}|$\'"'
WS_KINDS = [' ', '\t', '\n', '\r', '\x0b', '\x0c', '\x1c', '\x1d', '\x1e',
            '\x1f', '\x85', '\xa0', ' ', ' ']
CONTROLS = '\x00\x01\x07\x08\x1b\x7f'
NONASCII_LETTERS = 'éüñßøÀÖαβγΩжшЖ中文字あア'
LETTER_NUMBERS = 'ⅧⅫↀ'
NONASCII_DECIMALS = '٣٤९७𝟙𝟚'
DIGIT_LIKES = '²³①⑨'          # str.isdigit() but not decimal
NUMERIC_ONLY = '½¾'            # isnumeric only
ASTRAL = '😀𝄞𐍈'
OTHER_SYMBOLS = '€£©°•→'

ALL_CLASSES = {
    'lower': LOWER, 'upper': UPPER, 'letters': LOWER + UPPER,
    'digits': DIGITS, 'hex': HEXL, 'alnum': LOWER + UPPER + DIGITS,
    'nonascii_letters': NONASCII_LETTERS, 'letter_numbers': LETTER_NUMBERS,
    'nonascii_decimals': NONASCII_DECIMALS, 'digit_likes': DIGIT_LIKES,
    'numeric_only': NUMERIC_ONLY, 'astral': ASTRAL, 'symbols': OTHER_SYMBOLS,
    'controls': CONTROLS, 'punct': PUNCT,
}


def chars(alphabet):
    return st.sampled_from(list(alphabet))


def text_of(alphabet, lo=0, hi=8):
    return st.text(alphabet=list(alphabet), min_size=lo, max_size=hi)


def a_char():
    return st.one_of(
        chars(LOWER + UPPER), chars(DIGITS), chars(PUNCT), chars(PUNCT_HOT),
        st.sampled_from(WS_KINDS), chars(CONTROLS), chars(NONASCII_LETTERS),
        chars(LETTER_NUMBERS), chars(NONASCII_DECIMALS), chars(DIGIT_LIKES),
        chars(NUMERIC_ONLY), chars(ASTRAL), chars(OTHER_SYMBOLS))


def a_text(lo=0, hi=10):
    """Unrestricted A-text."""
    return st.lists(a_char(), min_size=lo, max_size=hi).map(''.join)


def plain_text(lo=0, hi=10):
    """Printable, no control characters / newlines (safe inside a line)."""
    return st.lists(st.one_of(
        chars(LOWER + UPPER), chars(DIGITS), chars(PUNCT), st.just(' '),
        chars(NONASCII_LETTERS), chars(OTHER_SYMBOLS)),
        min_size=lo, max_size=hi).map(''.join)
