"""
G-examples: example multisets for rexpy built from shape templates, plus the
option space, and the helper that calls rexpy for a case.

case = {
  'examples': [str | None, ...]      (final list, order and repeats included)
  'opts': {...extract keyword arguments, JSON values...},
  'size': None | 0 | {'do_all':..,'do_all_exceptions':..,'n_per_length':..,
                      'max_sampled_attempts':..},
  'seed': None | int,
  'form': 'list' | 'dict' | 'series' | 'series2',
}
"""

import re
from collections import Counter

from hypothesis import strategies as st

from tv.gen import text as T

FLAGS = re.UNICODE | re.DOTALL

PY_DIALECTS = ['perl', 'portable', 'grep']

# literal text that would mean something else if it reached the output
# expression unescaped
REGEX_LOOKALIKES = ['{2}', '{1}', '{1,3}', '{0}', 'a{2}', '(a)', '(', ')',
                    '[ab]', '[', '\\d', '\\w+', '.*', '.', 'a|b', '|', '^a$',
                    '$', 'x+', 'y?', '*', '(?i)', '\\1', '[^a]', 'a-z',
                    '{', '}', '#', '&&', '~', "'", '"']

FRAG_CLASSES = ['lower', 'upper', 'letters', 'digits', 'hex', 'alnum',
                'nonascii_letters', 'nonascii_decimals', 'digit_likes',
                'letter_numbers', 'punctsub', 'ws', 'controls', 'symbols',
                'astral', 'literal']


@st.composite
def fragment(draw, allow):
    cls = draw(st.sampled_from([c for c in FRAG_CLASSES if allow(c)]))
    lo = draw(st.integers(0, 3))
    hi = lo + draw(st.integers(0, 4))
    if hi == 0:
        hi = 1
    if cls == 'punctsub':
        hot = draw(st.booleans())
        pool = '^-]\\' if hot else T.PUNCT
        k = draw(st.integers(1, min(7, len(pool))))
        sub = draw(st.lists(st.sampled_from(list(pool)), min_size=k,
                            max_size=k, unique=True))
        alpha = ''.join(sub)
    elif cls == 'ws':
        alpha = draw(st.sampled_from(T.WS_KINDS))
    elif cls == 'literal':
        alpha = None
        lit = draw(st.one_of(T.a_text(1, 4),
                             st.sampled_from(['-', '.', '_', ':', '/', '@',
                                              ' ', '--', '^', ']', '\\']),
                             st.sampled_from(REGEX_LOOKALIKES)))
        return {'lit': lit}
    else:
        alpha = T.ALL_CLASSES[cls]
    return {'alpha': alpha, 'lo': lo, 'hi': hi}


@st.composite
def template_instances(draw, allow, max_inst=6):
    frags = draw(st.lists(fragment(allow), min_size=1, max_size=5))
    n = draw(st.one_of(st.integers(1, max_inst), st.integers(1, max_inst),
                       st.integers(11, 16)))
    out = []
    for _ in range(n):
        parts = []
        for f in frags:
            if 'lit' in f:
                parts.append(f['lit'])
            else:
                parts.append(draw(st.text(alphabet=list(f['alpha']),
                                          min_size=f['lo'], max_size=f['hi'])))
        out.append(''.join(parts))
    return out


SIZE_KEYS = {'do_all': 0, 'do_all_exceptions': 1, 'n_per_length': 1,
             'max_sampled_attempts': 0, 'max_punc_in_group': 1,
             'max_strings_in_group': 1, 'use_sampling': 0}


def size_strategy():
    sampling = st.fixed_dictionaries({
        'do_all': st.sampled_from([0, 1, 1, 2, 3, 4, 5, 6]),
        'do_all_exceptions': st.integers(1, 6),
        'n_per_length': st.integers(1, 4),
        'max_sampled_attempts': st.integers(0, 2),
    })
    groups = st.fixed_dictionaries({}, optional={
        'max_punc_in_group': st.integers(1, 6),
        'max_strings_in_group': st.integers(1, 5),
    })
    both = st.tuples(sampling, groups).map(lambda t: dict(t[0], **t[1]))
    # use_sampling=False only changes the default for do_all: with explicit
    # small limits the extraction still samples
    unsampled = sampling.map(lambda d: dict(d, use_sampling=False))
    return st.one_of(st.none(), st.none(), st.none(), st.just(0),
                     sampling, groups.filter(bool), both, unsampled)


def valid_size(sz):
    if sz in (None, 0):
        return True
    if not isinstance(sz, dict) or not sz:
        return False
    for (k, v) in sz.items():
        if k == 'use_sampling':
            if v is not False:
                return False
            continue
        if k not in SIZE_KEYS or not isinstance(v, int) or isinstance(
                v, bool) or v < SIZE_KEYS[k]:
            return False
    return True


def opts_strategy(with_pruning=False, dialects=PY_DIALECTS):
    d = {
        'tag': st.booleans(),
        'extra_letters': st.sampled_from([None, None, '_', '-', '.', '_-',
                                          '_.', '.-', '_.-']),
        'full_escape': st.booleans(),
        'remove_empties': st.booleans(),
        'strip': st.booleans(),
        'variableLengthFrags': st.booleans(),
        'dialect': st.sampled_from(dialects),
    }
    if with_pruning:
        d['max_patterns'] = st.sampled_from([None, None, 1, 2, 5])
        d['min_strings_per_pattern'] = st.sampled_from([1, 1, 2, 3])
    return st.fixed_dictionaries(d)


@st.composite
def examples_strategy(draw, tier='quick', allow=lambda c: True,
                      allow_none=True, allow_padding=True, repeats=True,
                      max_examples=None):
    big = (tier == 'thorough') and draw(st.integers(0, 9)) == 0
    ntemp = draw(st.integers(1, 3 if not big else 6))
    xs = []
    for _ in range(ntemp):
        xs.extend(draw(template_instances(allow, 6 if not big else 10)))
    if draw(st.integers(0, 14)) == 0:
        # wide rows: many fields of one shape, each a multi-class
        # alphanumeric run (letters then digits ...), so that the number of
        # groups in the expression approaches and passes the limit of 99
        k = draw(st.sampled_from([12, 20, 33, 34, 40, 49, 50, 60]))
        sep = draw(st.sampled_from(['-', '.', ' ', ':', '/', '\n', ' \n']))
        shape = draw(st.sampled_from(['a1', '1a', 'Aa1', 'a1a', 'aA']))
        pools = {'a': 'abcdxyz', 'A': 'ABCDXYZ', '1': '0123456789'}
        for _ in range(draw(st.integers(2, 3))):
            chars = {c: draw(st.sampled_from(pools[c])) for c in set(shape)}
            vary = draw(st.booleans())
            fields = []
            for j in range(k):
                if vary:
                    fields.append(''.join(
                        pools[c][(pools[c].index(chars[c]) + j)
                                 % len(pools[c])] for c in shape))
                else:
                    fields.append(''.join(chars[c] for c in shape))
            xs.append(sep.join(fields))
    if draw(st.integers(0, 14)) == 0:
        # plain strings plus a few in which the usual extra letters sit in
        # a long run of mixed punctuation: with sampling, the first sample
        # often holds none of the latter
        xs.extend(['ab', 'cd', 'ef', 'gh', 'ij', 'kl'][:draw(
            st.integers(3, 6))])
        if draw(st.booleans()):
            run = draw(st.sampled_from(['!"#$%&_-', '_!"#$%&\'',
                                        '(-)*+,./_', '.:;<=>?-_']))
            for w in draw(st.lists(st.sampled_from(['k', 'mn', 'p7', 'Q']),
                                   min_size=1, max_size=2, unique=True)):
                xs.append(w + run + draw(st.sampled_from(['z', 'y9', ''])))
        else:
            # two strings of one shape whose punctuation runs differ and
            # share exactly one of the usual extra letters
            (r1, r2) = draw(st.sampled_from([('!-#$', '-%&*'),
                                             ('.()+', ',.;:'),
                                             ('_<=>', '?_@^')]))
            xs.extend(['a' + r1 + 'b', 'c' + r2 + 'd'])
    if draw(st.integers(0, 19)) == 0:
        # an example that is a prefix of others which go on with a run of
        # one more character (optional trailing runs)
        base = draw(st.sampled_from(['INV7', '1', 'ab', 'x-', 'Q9.']))
        ch = draw(st.sampled_from(['0', 'c', '-', ' ', 'Z']))
        xs.extend([base, base + ch * draw(st.integers(3, 5))]
                  + ([base + ch] if draw(st.booleans()) else []))
    if draw(st.integers(0, 19)) == 0:
        # expressions that end in a literal dollar, and strings extending
        # what they match
        xs.extend(draw(st.sampled_from([['US$', 'AU$', 'US$5', 'NZ$'],
                                        ['a$', 'b$', 'a$$'],
                                        ['x^', 'y^', '^x', 'x^2']])))
    if draw(st.integers(0, 11)) == 0:
        # letters followed by combining marks (decomposed form)
        xs.extend(draw(st.lists(st.sampled_from(
            ['cafe\u0301 12', 'nai\u0308ve 7', 'A\u030a 3', 'e\u0301',
             'o\u0302te\u0301 41']), min_size=1, max_size=3, unique=True)))
    if draw(st.integers(0, 11)) == 0:
        # genuine values that look like the text form of a null
        xs.extend(draw(st.lists(st.sampled_from(['nan', 'None', 'NaT',
                                                 '<NA>', 'null', 'NULL']),
                                min_size=1, max_size=2, unique=True)))
    extras = draw(st.lists(st.one_of(
        T.a_text(0, 8) if allow('free') else st.just('x'),
        st.just(''),
    ), min_size=0, max_size=3))
    if allow('free'):
        xs.extend(extras)
    elif '' in extras:
        xs.append('')
    if allow_padding and draw(st.integers(0, 3)) == 0 and xs:
        i = draw(st.integers(0, len(xs) - 1))
        xs.append(draw(st.sampled_from([' ', '\t', '  ', '', ''])) + xs[i]
                  + draw(st.sampled_from(['', ' ', '\n', '\n'])))
        if draw(st.integers(0, 2)) == 0:
            # invisible characters that are NOT white space at an end of an
            # example (a byte-order mark, a zero-width space, a word
            # joiner): part of the example, whatever is stripped
            j = draw(st.integers(0, len(xs) - 1))
            if xs[j] is not None:
                xs.append(draw(st.sampled_from(['\ufeff', '\u200b', '', ' ']))
                          + xs[j]
                          + draw(st.sampled_from(['\u200b', '\u2060',
                                                  '\u200b ', '\ufeff'])))
        if draw(st.booleans()):
            # several examples that are another example plus a final line
            # break ('$' also matches just before one)
            for x in list(xs[:4]):
                if x is not None and not x.endswith('\n'):
                    xs.append(x + '\n')
    if allow_none and draw(st.integers(0, 4)) == 0:
        xs.append(None)
    if repeats and xs and draw(st.booleans()):
        k = draw(st.integers(1, 4))
        for _ in range(k):
            xs.append(xs[draw(st.integers(0, len(xs) - 1))])
    cap = max_examples or (18 if not big else 60)
    xs = xs[:cap]
    xs = draw(st.permutations(xs))
    return list(xs)


def make_size(size):
    from tdda.rexpy import rexpy
    if size is None or size == 0:
        return size
    return rexpy.Size(**size)


def kept_examples(case):
    """The examples an explicit option does not discard (with multiplicity)."""
    o = case['opts']
    out = []
    for x in case['examples']:
        if x is None:
            continue
        if o.get('strip'):
            x = x.strip()
        if o.get('remove_empties') and x == '':
            continue
        out.append(x)
    return out


ZERO_KEYS = ['1-2', 'Zq_9 x', '::', 'é9', ' pad ', '', '\t', 'A.B.C.D',
             '+44 (0)1 23']


def zero_keys_strategy():
    return st.one_of(st.just([]), st.just([]),
                     st.lists(st.sampled_from(ZERO_KEYS), min_size=1,
                              max_size=3, unique=True))


def valid_zero_keys(z):
    return z is None or (isinstance(z, list) and all(
        isinstance(x, str) for x in z) and len(z) <= 4)


def supplied(case, form=None):
    """Materialise the examples in the requested input form."""
    form = form or case.get('form', 'list')
    xs = case['examples']
    if form == 'list':
        return list(xs)
    if form == 'dict':
        c = Counter()
        order = []
        for x in xs:
            if x not in c:
                order.append(x)
            c[x] += 1
        d = {}
        # keys with multiplicity 0 (a Counter after subtract()): not examples
        zeros = [z for z in case.get('zero_keys') or [] if z not in c]
        for z in zeros[:1]:
            d[z] = 0
        for x in order:
            d[x] = c[x]
        for z in zeros[1:]:
            d[z] = 0
        return d
    raise ValueError(form)


def extract_kwargs(case):
    o = dict(case['opts'])
    if o.get('variableLengthFrags') and any(
            x is not None and len(coarse_sig(x)) > 24
            for x in case['examples']):
        # rows of dozens of fragments beside short strings make rexpy write
        # dozens of optional fragments in a row; Python's own matcher then
        # needs exponential time to find that such an expression does NOT
        # match a long string (the oracle, not rexpy, would hang): variable
        # length fragments are not combined with such rows
        o['variableLengthFrags'] = False
    kw = {
        'tag': o.get('tag', False),
        'extra_letters': o.get('extra_letters'),
        'full_escape': o.get('full_escape', False),
        'remove_empties': o.get('remove_empties', False),
        'strip': o.get('strip', False),
        'variableLengthFrags': o.get('variableLengthFrags', False),
        'dialect': o.get('dialect', 'portable'),
        'size': make_size(case.get('size')),
        'seed': case.get('seed'),
    }
    if o.get('max_patterns') is not None:
        kw['max_patterns'] = o['max_patterns']
    if o.get('min_strings_per_pattern', 1) != 1:
        kw['min_strings_per_pattern'] = o['min_strings_per_pattern']
    return kw


def run_extract(case, as_object=False, form=None, **override):
    """Call rexpy for the case; returns list of expressions or Extractor."""
    from tdda.rexpy import rexpy
    kw = extract_kwargs(case)
    kw.update(override)
    return rexpy.extract(supplied(case, form), as_object=as_object, **kw)


def matches(rx, s):
    return re.match(re.compile(rx, FLAGS), s) is not None


def coarse_sig(s):
    """Independent coarse signature used only for labelling."""
    out = []
    for c in s:
        if c.isalnum() or c == '_':
            k = 'C'
        elif c.isspace():
            k = ' '
        elif 33 <= ord(c) <= 126:
            k = '.'
        else:
            k = '*'
        if not out or out[-1] != k:
            out.append(k)
    return ''.join(out)


def sampling_path(case, n_distinct):
    sz = case.get('size')
    if not isinstance(sz, dict):
        return False
    return (n_distinct > sz.get('do_all', 100)
            and n_distinct > sz.get('do_all_exceptions', 4000))
