"""
G-frame: DataFrame descriptions over every dtype class tdda recognises.

desc = {"n": rows, "cols": [{"name": str, "kind": str, "cells": [...]}]}

Cells are plain JSON: ints, floats (specials as the strings "nan", "inf",
"-inf"), bools, strings, ISO date(-time) strings, None for null.  Every
oracle that needs ground truth computes it from these values (py_values),
never from pandas.
"""

import datetime
import math

from hypothesis import strategies as st

from tv.gen import text as T

INT_KINDS = {
    'int8': (-2**7, 2**7 - 1), 'int16': (-2**15, 2**15 - 1),
    'int32': (-2**31, 2**31 - 1), 'int64': (-2**63, 2**63 - 1),
    'uint8': (0, 2**8 - 1), 'uint16': (0, 2**16 - 1),
    'uint32': (0, 2**32 - 1), 'uint64': (0, 2**64 - 1),
}
NULLABLE_INT_KINDS = {'Int8': 'int8', 'Int16': 'int16', 'Int32': 'int32',
                      'Int64': 'int64', 'UInt8': 'uint8', 'UInt16': 'uint16',
                      'UInt32': 'uint32', 'UInt64': 'uint64'}
FLOAT_KINDS = ['float32', 'float64', 'Float64']
BOOL_KINDS = ['bool', 'boolean', 'obool']
STR_KINDS = ['ostr', 'cat', 'string']
DT_KINDS = ['dt64s', 'dt64ms', 'dt64us', 'dt64ns']
TZ_KINDS = ['dttz_utc', 'dttz_ny']
ODATE_KINDS = ['odate', 'odatetime']

# an object column holding only the numbers 0 and 1 (flags read from a
# loosely typed source); tdda types it 'string'.  Used by C02 only.
EXTRA_KINDS = ['onum']

ALL_KINDS = (list(INT_KINDS) + list(NULLABLE_INT_KINDS) + FLOAT_KINDS
             + BOOL_KINDS + STR_KINDS + DT_KINDS + TZ_KINDS + ODATE_KINDS)


GROUPS = [list(INT_KINDS), list(NULLABLE_INT_KINDS), FLOAT_KINDS, BOOL_KINDS,
          ['ostr'], ['cat'], ['string'], DT_KINDS, TZ_KINDS, ODATE_KINDS]


def tdda_type(kind):
    if kind in INT_KINDS or kind in NULLABLE_INT_KINDS:
        return 'int'
    if kind in FLOAT_KINDS:
        return 'real'
    if kind in BOOL_KINDS:
        return 'bool'
    if kind in STR_KINDS or kind == 'onum':
        return 'string'
    return 'date'


def nullable(kind):
    return kind not in INT_KINDS and kind != 'bool'


def int_range(kind):
    return INT_KINDS[NULLABLE_INT_KINDS.get(kind, kind)]


# ---------------------------------------------------------------- values

def int_values(kind):
    lo, hi = int_range(kind)
    specials = [v for v in (lo, hi, 0, 1, -1, 2, 7, -7, 100, 127, 255,
                            2**53 + 1, -(2**53 + 1), lo + 1, hi - 1)
                if lo <= v <= hi]
    return st.one_of(st.sampled_from(specials), st.sampled_from(specials),
                     st.integers(max(lo, -1000), min(hi, 1000)),
                     st.integers(lo, hi))


FLOAT_SPECIALS = [0.0, -0.0, 1.0, -1.0, 1.5, -2.25, 0.1, 100.0, -100.0,
                  1e-310, -1e-310, 5e-324, 1.797e308, -1.797e308, 3.0, 7.0,
                  1e15 + 0.5, 0.30000000000000004, 123456.789, 'inf', '-inf',
                  # a few ulps off a whole number
                  3.0000000000000004, 110.00000000000001, -3.0000000000000004,
                  0.9999999999999999, 2.0000000000000004,
                  # so small that products underflow
                  1e-200, 3e-170, -1e-200, -3e-170]
FLOAT32_SPECIALS = [0.0, -0.0, 1.0, -1.0, 1.5, -2.25, 100.0, 3.0, 0.5,
                    3.4028234663852886e38, -3.4028234663852886e38,
                    1.401298464324817e-45, 16777216.0, 'inf', '-inf']


def float_values(kind):
    if kind == 'float32':
        return st.one_of(
            st.sampled_from(FLOAT32_SPECIALS),
            st.floats(width=32, allow_nan=False, allow_infinity=False),
            st.integers(-1000, 1000).map(float))
    return st.one_of(
        st.sampled_from(FLOAT_SPECIALS),
        st.floats(allow_nan=False, allow_infinity=False),
        st.floats(-1000, 1000, allow_nan=False),
        st.integers(-1000, 1000).map(float))


def str_values():
    no_nul = T.a_text(0, 8).map(lambda s: s.replace('\x00', '\x01'))
    return st.one_of(
        no_nul, no_nul,
        st.sampled_from(['aa', 'abba', 'bc', '11', 'ac', 'abab',
                         '', ' ', 'a', 'A', 'abc', 'ABC', 'a b', '12', 'x1',
                         'NA', 'null', 'None', 'nan', 'true', 'é', '中文',
                         "o'k", '"q"', 'back\\slash', 'a,b', 'tab\there',
                         'new\nline', '-', '^', ']', '^-', '😀']),
        T.text_of(T.LOWER, 1, 4), T.text_of(T.DIGITS, 1, 4),
        # long multi-line cells: more than 99 alternating runs of character
        # classes, with line breaks inside
        st.sampled_from(['a1\n' * 55, 'b2\n' * 55 + 'x',
                         'k9 ' * 40 + '\n' + 'z0-' * 20]))


def date_values(kind):
    """ISO strings at the precision the kind carries."""
    if kind == 'odate':
        return st.dates(datetime.date(1, 1, 1),
                        datetime.date(9999, 12, 31)).map(
            lambda d: d.isoformat()) | st.sampled_from(
            ['0001-01-01', '9999-12-31', '1970-01-01', '2000-02-29',
             '1999-12-31'])
    if kind in ('dt64ns', 'dttz_utc', 'dttz_ny'):
        lo, hi = datetime.datetime(1700, 1, 1), datetime.datetime(2250, 1, 1)
    else:
        lo, hi = datetime.datetime(1, 1, 1), datetime.datetime(9999, 12, 31,
                                                               23, 59, 59)
    base = st.datetimes(lo, hi)
    if kind == 'dt64s':
        base = base.map(lambda d: d.replace(microsecond=0))
    elif kind == 'dt64ms':
        base = base.map(lambda d: d.replace(
            microsecond=(d.microsecond // 1000) * 1000))
    common = st.sampled_from([
        '1970-01-01T00:00:00', '2000-02-29T12:30:45', '1999-12-31T23:59:59',
        '2024-01-01T00:00:00', '1900-01-01T00:00:00'])
    if kind not in ('dt64s', 'dt64ms'):
        # fractions that are not exactly representable in binary
        common = common | st.sampled_from([
            '2021-03-04T05:06:07.000249', '2021-03-04T05:06:07.000251',
            '2021-03-04T05:06:07.000489', '2001-09-09T01:46:40.999999',
            '2001-09-09T01:46:40.000001', '1969-12-31T23:59:59.000019',
            '2038-01-19T03:14:07.000573'])
    whole_days = st.dates(datetime.date(1900, 1, 1),
                          datetime.date(2100, 1, 1)).map(
        lambda d: d.isoformat() + 'T00:00:00')
    return st.one_of(base.map(lambda d: d.isoformat()), common, whole_days)


def value_strategy(kind):
    if kind in INT_KINDS or kind in NULLABLE_INT_KINDS:
        return int_values(kind)
    if kind in FLOAT_KINDS:
        return float_values(kind)
    if kind in BOOL_KINDS:
        return st.booleans()
    if kind in STR_KINDS:
        return str_values()
    return date_values(kind)


AWKWARD_NAMES = ['n_failures', 'a_min_ok', 'Index', 'a b', "it's", 'q"x',
                 'a,b', '#c', 'é', '中', 'type', 'fields', 'x_max_ok', '0',
                 'A', 'a', 'b', 'c', 'col', 'RowNumber', 'share %', '%s',
                 '{0}', 'a%%b', 'val', '2019', '7', 'n', 'VAL',
                 # one name in decomposed, one in composed form
                 'cafe\u0301', 'caf\u00e9', 'A\u030a']


def name_strategy():
    return st.one_of(st.sampled_from(AWKWARD_NAMES),
                     st.sampled_from(['a', 'b', 'c', 'd', 'e']),
                     T.plain_text(1, 6))


@st.composite
def column(draw, kinds, n, name, many_categories=False):
    groups = [g for g in ([k for k in grp if k in kinds] for grp in GROUPS)
              if g]
    kind = draw(st.sampled_from(draw(st.sampled_from(groups))))
    vs = value_strategy(kind)
    mode = draw(st.sampled_from(['pool', 'pool', 'pool', 'distinct',
                                 'allnull', 'onevalue']))
    if mode == 'allnull' and not nullable(kind):
        mode = 'pool'
    if many_categories and kind in STR_KINDS:
        mode = 'distinct'
    if mode == 'allnull':
        cells = [None] * n
    else:
        if mode == 'onevalue':
            pool = [draw(vs)]
        elif mode == 'distinct':
            pool = draw(st.lists(vs, min_size=max(1, n), max_size=max(1, n),
                                 unique_by=repr))
        else:
            pool = draw(st.lists(vs, min_size=1, max_size=5))
        if mode == 'distinct':
            cells = list(pool[:n])
        else:
            cells = [draw(st.sampled_from(pool)) for _ in range(n)]
        if nullable(kind) and n:
            nulls = draw(st.sampled_from([0, 0, 1, 1, 2, 3]))
            for _ in range(min(nulls, n)):
                cells[draw(st.integers(0, n - 1))] = None
    col = {'name': name, 'kind': kind, 'cells': cells}
    if kind == 'cat' and draw(st.integers(0, 2)) == 0:
        # categories declared but used by no row (the usual state after
        # filtering rows of a categorical column)
        extra = draw(st.lists(st.sampled_from(['unused', 'zz', 'Q', '0']),
                              min_size=1, max_size=2, unique=True))
        col['unused_categories'] = [x for x in extra if x not in cells]
    return col


@st.composite
def frame_strategy(draw, kinds=None, min_cols=1, max_cols=4, max_rows=12,
                   allow_big=True, simple_names=False, row_choices=None):
    kinds = kinds or ALL_KINDS
    big = allow_big and draw(st.integers(0, 11)) == 0
    if big:
        n = draw(st.integers(19, 26))
    else:
        n = draw(st.sampled_from(row_choices or [0, 1, 1, 2, 2, 3, 3, 4, 5,
                                                 6, 8, max_rows]))
    ncols = draw(st.integers(min_cols, max_cols))
    if simple_names:
        names = ['c%d' % i for i in range(ncols)]
    else:
        names = draw(st.lists(name_strategy(), min_size=ncols,
                              max_size=ncols, unique=True))
    cols = [draw(column(kinds, n, nm, many_categories=big)) for nm in names]
    return {'n': n, 'cols': cols}


# ---------------------------------------------------------------- building

def parse_dt(s):
    if s is None:
        return None
    if 'T' in s:
        return datetime.datetime.fromisoformat(s)
    return datetime.date.fromisoformat(s)


def py_float(v, kind='float64'):
    if v is None:
        return None
    if isinstance(v, str):
        return float(v)
    if kind == 'float32':
        import numpy as np
        return float(np.float32(v))
    return float(v)


def py_values(col):
    """Ground-truth Python values of a column (None for null)."""
    kind = col['kind']
    cells = col['cells']
    if kind in FLOAT_KINDS:
        return [py_float(v, kind) for v in cells]
    if tdda_type(kind) == 'date':
        out = []
        for v in cells:
            d = parse_dt(v)
            if d is not None and kind != 'odate' and not isinstance(
                    d, datetime.datetime):
                d = datetime.datetime(d.year, d.month, d.day)
            out.append(d)
        return out
    return list(cells)


def build_series(col):
    import numpy as np
    import pandas as pd
    kind = col['kind']
    vals = py_values(col)
    if kind in INT_KINDS:
        return pd.Series(np.array(vals, dtype=kind) if vals
                         else np.array([], dtype=kind))
    if kind in NULLABLE_INT_KINDS:
        return pd.Series(pd.array([pd.NA if v is None else v for v in vals],
                                  dtype=kind))
    if kind in ('float32', 'float64'):
        return pd.Series(np.array([np.nan if v is None else v for v in vals],
                                  dtype=kind))
    if kind == 'Float64':
        return pd.Series(pd.array([pd.NA if v is None else v for v in vals],
                                  dtype='Float64'))
    if kind == 'bool':
        return pd.Series(np.array(vals, dtype=bool))
    if kind == 'boolean':
        return pd.Series(pd.array([pd.NA if v is None else v for v in vals],
                                  dtype='boolean'))
    if kind in ('obool', 'ostr', 'odate', 'odatetime', 'onum'):
        if kind == 'ostr' and len(vals) % 2 == 1 and sum(
                1 for v in vals if v is None) >= 2:
            # nulls of more than one kind in one object column (None and
            # NaN, as after a merge of sources)
            k = 0
            mixed = []
            for v in vals:
                if v is None:
                    mixed.append(None if k % 2 == 0 else float('nan'))
                    k += 1
                else:
                    mixed.append(v)
            return pd.Series(mixed, dtype=object)
        if kind == 'obool' and len(vals) % 2 == 0:
            # the flags as numpy scalars (what `[x > 3 for x in arr]` gives)
            vals = [v if v is None else np.bool_(v) for v in vals]
        return pd.Series(vals, dtype=object)
    if kind == 'cat':
        extra = col.get('unused_categories')
        if extra:
            cats = sorted(set(v for v in vals if v is not None) | set(extra))
            return pd.Series(pd.Categorical(vals, categories=cats))
        return pd.Series(pd.Categorical(vals))
    if kind == 'string':
        return pd.Series(pd.array([pd.NA if v is None else v for v in vals],
                                  dtype='string'))
    if kind in DT_KINDS:
        unit = kind[4:]
        if unit == 'ns' and any(isinstance(c, str) and len(c) > 26
                                for c in col['cells']):
            # instants given to the nanosecond (ticks of a counter): more
            # digits than a Python datetime holds
            arr = np.array([np.datetime64('NaT') if c is None
                            else np.datetime64(c) for c in col['cells']],
                           dtype='datetime64[ns]')
            return pd.Series(arr)
        arr = np.array([np.datetime64('NaT') if v is None
                        else np.datetime64(v.isoformat()) for v in vals],
                       dtype='datetime64[%s]' % unit)
        return pd.Series(arr)
    if kind in TZ_KINDS:
        zone = 'UTC' if kind == 'dttz_utc' else 'America/New_York'
        arr = np.array([np.datetime64('NaT') if v is None
                        else np.datetime64(v.isoformat()) for v in vals],
                       dtype='datetime64[ns]')
        return pd.Series(arr).dt.tz_localize('UTC').dt.tz_convert(zone)
    raise ValueError(kind)


def build_frame(desc):
    import pandas as pd
    data = {}
    for c in desc['cols']:
        s = build_series(c)
        data[c['name']] = s
    df = pd.DataFrame(data) if data else pd.DataFrame()
    return df


def valid_frame(desc):
    try:
        n = desc['n']
        if not isinstance(n, int) or n < 0:
            return False
        names = [c['name'] for c in desc['cols']]
        if len(set(names)) != len(names) or not names:
            return False
        for c in desc['cols']:
            if (c['kind'] not in ALL_KINDS + EXTRA_KINDS
                    or len(c['cells']) != n):
                return False
            if c['kind'] == 'onum' and not all(
                    v is None or (type(v) is int and v in (0, 1, 2))
                    for v in c['cells']):
                return False
            if not isinstance(c['name'], str) or not c['name']:
                return False
            if not nullable(c['kind']) and any(v is None
                                               for v in c['cells']):
                return False
            for v in c['cells']:
                if v is None:
                    continue
                k = c['kind']
                if k in INT_KINDS or k in NULLABLE_INT_KINDS:
                    lo, hi = int_range(k)
                    if isinstance(v, bool) or not isinstance(v, int) or (
                            not lo <= v <= hi):
                        return False
                elif k in FLOAT_KINDS:
                    if isinstance(v, str):
                        if v not in ('inf', '-inf'):
                            return False
                    elif isinstance(v, bool) or not isinstance(
                            v, (int, float)):
                        return False
                    elif isinstance(v, float) and (math.isnan(v)):
                        return False
                elif k in BOOL_KINDS:
                    if not isinstance(v, bool):
                        return False
                elif k in STR_KINDS:
                    if not isinstance(v, str) or '\x00' in v:
                        return False
                else:
                    if not isinstance(v, str):
                        return False
                    parse_dt(v)
        build_frame(desc)
        return True
    except Exception:
        return False
