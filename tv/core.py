"""
Core data types and helpers shared by every property module.

A *case* is a JSON-serialisable dict.  A property module exposes

    ID        'C03'
    RULE      text: how cases are generated and what counts as non-trivial
    BUDGET    {'quick': n_cases, 'thorough': n_cases}
    strategy(tier)            -> hypothesis strategy of cases
    run(case, ctx)            -> Outcome
    REGRESSIONS (optional)    -> list of (name, case) always run first
    extra(tier, ctx) (optional) -> list of (case, Outcome) for enumerated
                                   sub-campaigns (exhaustive parts etc.)

Nothing in run() may consult a RNG, the wall clock or set/dict iteration
order of un-ordered containers.
"""

import hashlib
import json
import os
import sys
import traceback


class Outcome(object):
    __slots__ = ('nontrivial', 'labels', 'violations', 'known', 'excluded',
                 'info')

    def __init__(self):
        self.nontrivial = False
        self.labels = []
        # violations: list of (clause, bucket_key, detail)
        self.violations = []
        # known: list of (finding_id, detail) -- violations recognised as a
        # listed known finding by that finding's own predicate
        self.known = []
        # excluded: list of finding ids whose region this case was steered
        # away from by construction (generator-side accounting)
        self.excluded = []
        self.info = {}

    def label(self, *names):
        for n in names:
            if n not in self.labels:
                self.labels.append(n)

    def violate(self, clause, bucket, detail):
        self.violations.append((clause, str(bucket), str(detail)[:2000]))

    def known_hit(self, fid, detail=''):
        self.known.append((fid, str(detail)[:500]))

    def to_json(self):
        return {'nontrivial': self.nontrivial, 'labels': self.labels,
                'violations': [list(v) for v in self.violations],
                'known': [list(k) for k in self.known],
                'excluded': self.excluded, 'info': self.info}


class HarnessError(Exception):
    """Raised for a problem in the verification machinery itself."""


def jdumps(obj, **kw):
    """Readable JSON (non-ASCII kept), except that text holding lone
    surrogates - which no UTF-8 file can carry - is escaped throughout."""
    s = json.dumps(obj, ensure_ascii=False, **kw)
    try:
        s.encode('utf-8')
    except UnicodeEncodeError:
        s = json.dumps(obj, ensure_ascii=True, **kw)
    return s


def canon(case):
    return json.dumps(case, sort_keys=True, ensure_ascii=True,
                      separators=(',', ':'))


def case_hash(case):
    return hashlib.sha1(canon(case).encode('ascii')).hexdigest()


def case_size(case):
    return len(canon(case))


def derive_seed(*parts):
    h = hashlib.sha256('|'.join(str(p) for p in parts).encode()).hexdigest()
    return int(h[:12], 16)


def repo_root():
    return os.path.realpath(os.environ.get('VERIF_REPO') or '/repo')


def tdda_frame(exc):
    """
    Innermost frame of the traceback that lies inside the tdda package of
    the tree under test: 'relative/path.py:func' (line numbers are left out
    of the bucket key so that unrelated edits do not split buckets; the
    line is reported in the detail).
    """
    root = os.path.join(repo_root(), 'tdda') + os.sep
    tb = traceback.extract_tb(exc.__traceback__)
    best = None
    for fr in tb:
        fn = os.path.realpath(fr.filename)
        if fn.startswith(root):
            best = fr
    if best is None:
        return None, None
    rel = os.path.realpath(best.filename)[len(root):]
    return '%s:%s' % (rel, best.name), '%s:%d' % (rel, best.lineno)


class TddaRaised(object):
    """Result wrapper for a tdda call that raised."""
    def __init__(self, exc):
        self.exc = exc
        self.type = type(exc).__name__
        self.where, self.where_line = tdda_frame(exc)
        self.msg = str(exc)[:300]

    def bucket(self):
        return '%s@%s' % (self.type, self.where)

    def detail(self):
        return '%s: %s (at %s)' % (self.type, self.msg, self.where_line)

    def __bool__(self):
        return False


def call(fn, *args, **kw):
    """
    Call into the code under test.  Returns (ok, value): value is the
    function's result, or a TddaRaised when it raised an Exception.
    SystemExit is returned as TddaRaised too (CLI paths handle it
    themselves where an exit is legitimate).  An exception that has no
    tdda frame at all is the harness's own fault and propagates.
    """
    try:
        return True, fn(*args, **kw)
    except AssertionError as e:
        r = TddaRaised(e)
        return False, r
    except Exception as e:
        r = TddaRaised(e)
        if r.where is None:
            raise
        return False, r


def jsonable(x):
    """Best-effort conversion for evidence samples / details."""
    try:
        json.dumps(x)
        return x
    except Exception:
        return repr(x)
