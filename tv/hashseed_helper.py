"""
Helper for C14's hash-seed differential: run in a fresh interpreter under a
given PYTHONHASHSEED, extract every example set of the JSON file in argv[1]
in list form and in dict form, with seed 1 and (where no sampling can happen)
without a seed, and print the results as JSON.
"""
import json
import sys


def main():
    from tdda.rexpy import rexpy
    from tv.gen import rex as G
    sets = json.load(open(sys.argv[1], encoding='utf-8'))
    out = []
    for s in sets:
        c = {'examples': s['examples'], 'opts': s['opts'],
             'size': s.get('size'), 'seed': None, 'form': 'list'}
        kw = G.extract_kwargs(c)
        n_distinct = len(set(G.kept_examples(c)))
        sampling = G.sampling_path(c, n_distinct)
        res = {}
        if len(sys.argv) > 2 and sys.argv[2] == 'flip':
            kw2 = dict(kw, seed=1,
                       full_escape=not kw.get('full_escape', False))
            try:
                rexpy.extract(G.supplied(c, 'list'), **kw2)
            except Exception:
                pass
        for form in ('list', 'dict'):
            # (any hashable is a seed; a string's hash() differs from one
            # interpreter to the next, what random.seed() makes of it not)
            for seed in ((1, 'seed-a') if sampling else (1, 'seed-a', None)):
                kw['seed'] = seed
                try:
                    r = rexpy.extract(G.supplied(c, form), **kw)
                except Exception as e:      # compared like any other result
                    r = 'raised %s: %s' % (type(e).__name__, e)
                res['%s/seed=%r' % (form, seed)] = r
        out.append(res)
    json.dump(out, sys.stdout, ensure_ascii=True)


if __name__ == '__main__':
    main()
