"""
Reset of module-level state of the code under test (and of the interpreter
state tdda reads) at the top of every case, so that a case's result is a
function of the case alone.
"""

import os
import random
import sys

from tv.core import case_hash

_saved = {}


def reset(case):
    _saved['cwd'] = os.getcwd()
    _saved['argv'] = list(sys.argv)
    _saved['stdout'] = sys.stdout
    _saved['stderr'] = sys.stderr
    _saved['stdin'] = sys.stdin
    _saved['environ'] = dict(os.environ)
    # global RNG: a case-derived state, so "state preserved" is checkable and
    # nothing depends on what ran before
    random.seed(int(case_hash(case)[:8], 16))
    m = sys.modules.get('tdda.rexpy.rexpy')
    if m is not None:
        m.memo.clear()
        m.nCalls = 0
    rt = sys.modules.get('tdda.referencetest.referencetest')
    if rt is not None:
        R = rt.ReferenceTest
        R.regenerate = {}
        R.default_data_locations = {}
        R.verbose = False
        R.tmp_dir = _saved.setdefault('rt_tmp_dir', R.tmp_dir)


def restore():
    try:
        os.chdir(_saved.get('cwd', '/'))
    except OSError:
        os.chdir('/')
    sys.argv[:] = _saved.get('argv', sys.argv)
    sys.stdout = _saved.get('stdout', sys.stdout)
    sys.stderr = _saved.get('stderr', sys.stderr)
    sys.stdin = _saved.get('stdin', sys.stdin)
    env = _saved.get('environ')
    if env is not None:
        for k in list(os.environ.keys()):
            if k not in env:
                del os.environ[k]
        for k, v in env.items():
            if os.environ.get(k) != v:
                os.environ[k] = v
