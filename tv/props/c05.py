"""
C05 -- DataFrame comparison passes exactly when the checked structure and
values agree; a failure is an assertion with a description, never an
internal error.
"""

import copy
import hashlib
import io
import os
import sys

from hypothesis import strategies as st

from tv.core import Outcome, call
from tv.gen import frames as F
from tv.props.c04 import Recorder

ID = 'C05'
BUDGET = {'quick': 5000, 'thorough': 150000}
RULE = ('A reference frame of 1-5 columns (int64, Int64, float64, Float64, '
        'float32, bool, boolean, object / string-dtype / str-dtype / '
        'categorical strings, datetime64[ns]; 0-8 rows; nulls; float '
        'magnitudes <= 1e6; optional unique key column) and an actual frame '
        'derived by exactly one tagged edit: identical copy, one cell changed '
        'by >= 3 units of the precision, one float cell changed by 1/100 '
        'unit of the precision, null<->value, column renamed / retyped / '
        'moved / added / dropped, row added / dropped, rows shuffled; x '
        'check_data / check_types / check_order / check_extra_cols as None, '
        'False, list or function x sortby x condition x precision 0-10 x '
        'type_matching; entry points check_dataframe, assertDataFramesEqual, '
        'assertDataFrameCorrect and assertOnDiskDataFrameCorrect against a '
        'parquet reference. Oracle: reference model over the two '
        'descriptions and the resolved options (tv.props.c05.model); a '
        'failure must be failures==1 / an assertion whose message names the '
        'kind of difference; any other exception is a violation. '
        'Non-trivial: the edit touches something the options check, or it is '
        'a within-precision / excluded-column edit that must pass; distinct '
        'by case hash.')
RULE += ' ' + 'Also: row labels on either frame (offset, reversed, strings, duplicated, carried along with a shuffle) - the model stays positional; a sixth of integer columns hold 64-bit values around 2**53, -2**62, 2**63-1 and differ by 1-3; edit retype_changed (int64 -> float64 with a fractional or within-precision cell, bool -> int64 with a 7); a second comparison of the same frames at the other loose type-matching level; half of the on-disk comparisons give both files one modification time. One case in ten is a string table with a CSV reference (and sometimes a CSV actual) read by the default CSV loader: NA-like strings are data, only the empty field is null.'
RULE += (' Histories with sortby (in-memory entries): the one list of sort '
         'keys is first used for a comparison whose actual frame lacks the key '
         'column; after a passing comparison a frame derived from the actual '
         'one (reversed / rotated, attrs carried over) is compared again with '
         'the same keys and must pass.')
RULE += ' ' + 'Round 7: a quarter of the cell_big edits move one instant by 1 ns to 0.999 s in a datetime column (added when the frame has none); tz-aware datetime columns (dttz); datetime columns retyped to microsecond resolution or to an object column of Timestamps.'
RULE += ' ' + "Round 8: sort keys given as a function of the frame (its first column: the reference's); one case in twenty compares frames of 257-600 integer columns whose last row differs in 0 / 1 / 255 / 256 / 257 / 512 cells."
ASSUMPTIONS = ['type_matching levels: strict = same dtype name; medium also '
               'ignores bit width and nullability within int / float / bool '
               'and lets object stand for string; permissive also lets int, '
               'float and bool stand for each other (the names are all the '
               'documentation gives)',
               'CSV references are not generated: what a CSV round trip does '
               'to dtypes is tdda\'s own loader, so there is no independent '
               'model of it here (C16/C17 cover the loaders)']

KINDS = ['int64', 'Int64', 'float64', 'Float64', 'float32', 'bool',
         'boolean', 'ostr', 'string', 'pstr', 'cat', 'dt64ns', 'dttz']
RETYPES = {
    # the same instants at another resolution, or as an object column of
    # Timestamps
    'dt64ns': ['dt_us', 'dt_obj'],
    'dttz': ['dt_us', 'dt_obj'],
    'int64': ['int32', 'float64', 'Int64', 'ostr_num'],
    'float64': ['float32x', 'Float64'],
    'bool': ['boolean', 'int_of_bool'],
    'ostr': ['string', 'pstr', 'cat'],
    'Int64': ['int64'],
    'boolean': ['bool'],
}
ENTRIES = ['check_dataframe', 'assertDataFramesEqual',
           'assertDataFrameCorrect:parquet',
           'assertOnDiskDataFrameCorrect:parquet']


def value_for(kind):
    if kind in ('int64', 'Int64'):
        return st.integers(-1000, 1000)
    if kind == 'bigint':
        # 64-bit identifiers: beyond the integers a float64 can tell apart
        return st.one_of(st.integers(2**53, 2**53 + 40),
                         st.integers(-2**62 - 40, -2**62),
                         st.integers(2**63 - 41, 2**63 - 1))
    if kind in ('float64', 'Float64', 'float32'):
        return st.integers(-10**6, 10**6).map(lambda k: k / 8.0)
    if kind in ('bool', 'boolean'):
        return st.booleans()
    if kind in ('ostr', 'string', 'pstr', 'cat'):
        return st.sampled_from(['a', 'b', 'abc', '', 'é', 'x y', '12', 'NA',
                                'B', 'zz'])
    if kind in ('dt64ns', 'dttz'):
        return st.sampled_from(['2001-01-01T00:00:00', '1999-12-31T23:59:59',
                                '2020-02-29T12:00:00.123456',
                                '1970-01-01T00:00:00'])
    raise ValueError(kind)


def has_big(c):
    return c['kind'] in ('int64', 'Int64') and any(
        v is not None and abs(v) > 10**6 for v in c['cells'])


def nullable(kind):
    return kind not in ('int64', 'bool')


@st.composite
def option(draw, names):
    form = draw(st.sampled_from(['none', 'none', 'none', 'false', 'list',
                                 'func']))
    cols = []
    if form in ('list', 'func') and names:
        cols = draw(st.lists(st.sampled_from(names), min_size=1,
                             max_size=len(names), unique=True))
    elif form in ('list', 'func'):
        form = 'none'
    return {'form': form, 'cols': cols}


@st.composite
def case_strategy(draw, tier):
    ncols = draw(st.integers(1, 5))
    n = draw(st.sampled_from([0, 1, 2, 3, 3, 4, 5, 8]))
    p = draw(st.sampled_from([None, 0, 1, 2, 3, 6, 6, 8, 10]))
    cols = []
    use_key = draw(st.booleans())
    if use_key:
        keys = draw(st.lists(st.integers(0, 50), min_size=n, max_size=n,
                             unique=True))
        cols.append({'name': 'k', 'kind': 'int64', 'cells': keys})
    for i in range(ncols):
        kind = draw(st.sampled_from(KINDS))
        vs = value_for(kind)
        big = kind in ('int64', 'Int64') and draw(st.integers(0, 5)) == 0
        if big:
            vs = value_for('bigint')
        cells = [draw(vs) for _ in range(n)]
        if nullable(kind) and n and draw(st.integers(0, 2)) == 0:
            cells[draw(st.integers(0, n - 1))] = None
        cols.append({'name': 'c%d' % i, 'kind': kind, 'cells': cells})
    ref = {'n': n, 'cols': cols}
    act = copy.deepcopy(ref)
    edit = draw(st.sampled_from([
        'identical', 'identical', 'cell_big', 'cell_big', 'cell_small',
        'null_to_value', 'value_to_null', 'rename', 'retype', 'retype',
        'retype_changed', 'move', 'add_row', 'drop_row', 'add_col', 'drop_col', 'shuffle']))
    force_dt = False
    if edit == 'cell_big' and n and draw(st.integers(0, 3)) == 0:
        # one instant moved by a fraction of a second, in a datetime column
        # (added when the frame has none)
        force_dt = True
        if not any(c['kind'] in ('dt64ns', 'dttz') for c in act['cols']):
            newc = {'name': 'c%d' % ncols, 'kind': 'dt64ns',
                    'cells': [draw(value_for('dt64ns')) for _ in range(n)]}
            ref['cols'].append(copy.deepcopy(newc))
            act['cols'].append(newc)
        if draw(st.booleans()):
            p = draw(st.sampled_from([0, 0, 1, 3]))
    if edit == 'cell_small' and draw(st.booleans()):
        p = draw(st.sampled_from([0, 0, 1]))    # where rounding bites first
    peff = 6 if p is None else p
    info = {'edit': edit}
    data_cols = [c for c in act['cols'] if c['name'] != 'k']
    if edit in ('cell_big', 'cell_small', 'null_to_value', 'value_to_null'):
        if n == 0:
            edit = info['edit'] = 'identical'
        else:
            c = draw(st.sampled_from(data_cols))
            dts = [x for x in data_cols if x['kind'] in ('dt64ns', 'dttz')]
            if edit == 'cell_big' and dts and (force_dt
                                               or draw(st.booleans())):
                c = draw(st.sampled_from(dts))
            if edit == 'cell_small':
                fl = [x for x in data_cols if x['kind'] in ('float64',
                                                            'Float64')]
                if not fl:
                    edit = info['edit'] = 'identical'
                else:
                    c = draw(st.sampled_from(fl))
            if edit != 'identical':
                i = draw(st.integers(0, n - 1))
                info['col'] = c['name']
                info['row'] = i
                rc = [x for x in ref['cols'] if x['name'] == c['name']][0]
                k = c['kind']
                if edit == 'cell_small':
                    base = draw(st.integers(-1000, 1000)) / (10.0 ** min(
                        peff, 6))
                    rc['cells'][i] = base
                    c['cells'][i] = base + 10.0 ** -(peff + 2)
                elif edit == 'null_to_value':
                    if not nullable(k):
                        edit = info['edit'] = 'identical'
                    else:
                        rc['cells'][i] = None
                        c['cells'][i] = draw(value_for(k))
                elif edit == 'value_to_null':
                    if not nullable(k):
                        edit = info['edit'] = 'identical'
                    else:
                        rc['cells'][i] = draw(value_for(k))
                        c['cells'][i] = None
                else:   # cell_big
                    old = rc['cells'][i]
                    if k in ('float64', 'Float64', 'float32'):
                        base = draw(st.integers(-1000, 1000)) * 1.0
                        rc['cells'][i] = base
                        c['cells'][i] = base + 3.0 * 10.0 ** -min(peff, 3)
                        if k == 'float32':
                            c['cells'][i] = base + 8.0
                    elif k in ('int64', 'Int64') and old is not None and (
                            abs(old) >= 2**53):
                        c['cells'][i] = old + (draw(st.sampled_from(
                            [1, 1, 2, 3])) if old < 2**63 - 4 else -1)
                    elif (k in ('dt64ns', 'dttz') and old is not None
                          and '.' not in old
                          and (force_dt or draw(st.booleans()))):
                        # an instant a fraction of a second later (rounding
                        # to the precision is for floats, not for instants)
                        c['cells'][i] = old + draw(st.sampled_from(
                            ['.000000300', '.200', '.000001', '.999',
                             '.000000001', '.4']))
                    else:
                        new = draw(value_for(k).filter(lambda v: v != old))
                        c['cells'][i] = new
    elif edit == 'rename':
        c = draw(st.sampled_from(data_cols))
        info['col'] = c['name']
        c['name'] = c['name'] + '_x'
    elif edit == 'retype':
        cand = [c for c in data_cols if c['kind'] in RETYPES
                and not (c['kind'] in ('Int64', 'boolean')
                         and None in c['cells'])
                and not has_big(c)]
        if not cand:
            edit = info['edit'] = 'identical'
        else:
            c = draw(st.sampled_from(cand))
            info['col'] = c['name']
            info['to'] = draw(st.sampled_from(RETYPES[c['kind']]))
            c['retype'] = info['to']
    elif edit == 'retype_changed':
        # another (compatible) dtype AND a value that only exists in that
        # dtype: a fraction in a float column checked against integers, a 7
        # in an integer column checked against booleans
        cand = [c for c in data_cols if c['kind'] in ('int64', 'bool')
                and not has_big(c)]
        if not cand or n == 0:
            edit = info['edit'] = 'identical'
        else:
            c = draw(st.sampled_from(cand))
            i = draw(st.integers(0, n - 1))
            info['col'], info['row'] = c['name'], i
            if c['kind'] == 'int64':
                c['retype'] = info['to'] = 'float64'
                tiny = 10.0 ** -(peff + 3)
                c['patch'] = {'row': i, 'value': c['cells'][i] + (draw(
                    st.sampled_from([0.75, 0.5, -0.75, tiny, -tiny, tiny]))
                    if peff >= 1 else draw(st.sampled_from([2.75, tiny])))}
            else:
                c['retype'] = info['to'] = 'int_of_bool'
                c['patch'] = {'row': i, 'value': draw(
                    st.sampled_from([7, 2, -1]))}
    elif edit == 'move':
        if len(act['cols']) < 2:
            edit = info['edit'] = 'identical'
        else:
            i = draw(st.integers(0, len(act['cols']) - 1))
            j = draw(st.integers(0, len(act['cols']) - 2))
            c = act['cols'].pop(i)
            act['cols'].insert(j, c)
            if [x['name'] for x in act['cols']] == [x['name']
                                                     for x in ref['cols']]:
                act['cols'].append(act['cols'].pop(0))
            info['col'] = c['name']
    elif edit == 'add_row':
        for c in act['cols']:
            v = draw(value_for(c['kind']))
            if c['name'] == 'k':
                v = 60 + draw(st.integers(0, 5))
            c['cells'].append(v)
        act['n'] += 1
    elif edit == 'drop_row':
        if n == 0:
            edit = info['edit'] = 'identical'
        else:
            i = draw(st.integers(0, n - 1))
            for c in act['cols']:
                del c['cells'][i]
            act['n'] -= 1
    elif edit == 'add_col':
        kind = draw(st.sampled_from(['int64', 'float64', 'ostr']))
        act['cols'].insert(draw(st.integers(0, len(act['cols']))), {
            'name': 'extra', 'kind': kind,
            'cells': [draw(value_for(kind)) for _ in range(n)]})
        info['col'] = 'extra'
    elif edit == 'drop_col':
        c = draw(st.sampled_from(data_cols))
        act['cols'] = [x for x in act['cols'] if x['name'] != c['name']]
        info['col'] = c['name']
        if not act['cols']:
            act = copy.deepcopy(ref)
            edit = info['edit'] = 'identical'
    shuffled = None
    if edit == 'shuffle' or (use_key and draw(st.integers(0, 3)) == 0):
        if act['n'] >= 2:
            shuffled = draw(st.permutations(list(range(act['n']))))
            for c in act['cols']:
                c['cells'] = [c['cells'][i] for i in shuffled]
    # row labels are not data: the comparison is by position
    if shuffled is not None and draw(st.booleans()):
        act['index'] = [int(i) for i in shuffled]   # labels travel with rows
        info['labels'] = 'carried-with-shuffle'
    else:
        lab = draw(st.sampled_from(['none', 'none', 'none', 'act-offset',
                                    'ref-offset', 'act-reversed',
                                    'act-strings', 'act-dups']))
        if lab == 'act-offset':
            act['index'] = [i + 7 for i in range(act['n'])]
        elif lab == 'ref-offset':
            ref['index'] = [2 * i for i in range(ref['n'])]
        elif lab == 'act-reversed':
            act['index'] = list(reversed(range(act['n'])))
        elif lab == 'act-strings':
            act['index'] = ['r%d' % i for i in range(act['n'])]
        elif lab == 'act-dups':
            act['index'] = [i // 2 for i in range(act['n'])]
        if lab != 'none':
            info['labels'] = lab
    ref_names = [c['name'] for c in ref['cols']]
    act_names = [c['name'] for c in act['cols']]
    opts = {
        'check_data': draw(option(ref_names)),
        'check_types': draw(option(ref_names)),
        'check_order': draw(option(ref_names)),
        'check_extra_cols': draw(option(act_names)),
        'sortby': (['k'] if use_key and draw(st.booleans()) else None),
        # the keys given as a function of the frame ("its first column"):
        # the REFERENCE frame's, where k comes first
        'sortby_form': draw(st.sampled_from(['list', 'list', 'func-first'])),
        # a condition on values (k >= c), or one on position: "the first m
        # rows" - of the frames as sorted, when a sort is asked for
        'condition': (draw(st.integers(0, 50))
                      if use_key and draw(st.integers(0, 3)) == 0 else
                      {'first': draw(st.integers(0, max(1, n)))}
                      if use_key and draw(st.integers(0, 4)) == 0 else None),
        'precision': p,
        # (a retyped column is where the loose levels differ from strict
        # and from each other)
        'type_matching': draw(st.sampled_from(
            ['medium', 'permissive', 'medium', 'permissive', None, 'strict']
            if info['edit'].startswith('retype') else
            [None, 'strict', 'medium', 'permissive'])),
    }
    entry = draw(st.sampled_from(
        ENTRIES[:2] * 2 + ENTRIES if info['edit'].startswith('retype')
        else ENTRIES))
    if entry != 'check_dataframe':
        # only check_dataframe takes check_extra_cols
        opts['check_extra_cols'] = {'form': 'none', 'cols': []}
    if entry.startswith('assertOnDisk'):
        opts['type_matching'] = None
    if info.get('to') == 'float32x' and opts['precision'] in (0, 1, 2):
        # values are multiples of 1/8: from 3 decimals on, rounding leaves
        # them alone, so float32 and float64 agree exactly
        opts['precision'] = 3
    return {'ref': ref, 'act': act, 'opts': opts, 'edit': info,
            'entry': entry}


CSV_STRINGS = ['a', 'b', 'abc', 'x y', 'k12', 'NA', 'n/a', 'N/A', 'null',
               'None', 'nan', '#N/A', '-', 'é', 'a,b', 'say "hi"']


@st.composite
def csv_case(draw):
    """Reference (and sometimes actual) as CSV files read by tdda's default
    loader, whose documented null markers are the empty field, NaN and NULL
    - nothing else: 'NA', 'n/a', 'null', 'None' ... are strings."""
    n = draw(st.integers(1, 5))
    ncols = draw(st.integers(1, 3))
    cols = []
    for i in range(ncols):
        cells = [draw(st.sampled_from(CSV_STRINGS)) for _ in range(n)]
        if draw(st.integers(0, 2)) == 0:
            cells[draw(st.integers(0, n - 1))] = None
        cols.append({'name': 's%d' % i, 'cells': cells})
    ids = list(range(1, n + 1))
    act = [list(c['cells']) for c in cols]
    edit = draw(st.sampled_from(['identical', 'identical', 'other-string',
                                 'marker-to-marker', 'to-null', 'from-null']))
    j, i = draw(st.integers(0, ncols - 1)), draw(st.integers(0, n - 1))
    old = act[j][i]
    if edit == 'other-string':
        act[j][i] = draw(st.sampled_from([x for x in CSV_STRINGS
                                          if x != old]))
    elif edit == 'marker-to-marker':
        cols[j]['cells'][i] = 'NA'
        act[j][i] = draw(st.sampled_from(['n/a', 'null', 'None', 'N/A']))
    elif edit == 'to-null':
        if old is None:
            cols[j]['cells'][i] = 'NA'
        act[j][i] = None
    elif edit == 'from-null':
        cols[j]['cells'][i] = None
        act[j][i] = draw(st.sampled_from(['NA', 'null', 'a']))
    return {'csv': {'names': [c['name'] for c in cols], 'ids': ids,
                    'ref': [c['cells'] for c in cols], 'act': act,
                    'edit': edit,
                    'actual_as': draw(st.sampled_from(['frame', 'csv']))}}


def valid_csv(c):
    try:
        k = len(c['names'])
        n = len(c['ids'])
        ok = lambda v: v is None or (isinstance(v, str) and v != ''
                                     and v not in ('NaN', 'NULL')
                                     and '\n' not in v and '\r' not in v
                                     and '\\' not in v)
        return (1 <= k <= 4 and n >= 1 and len(c['ref']) == k
                and len(c['act']) == k
                and all(len(x) == n and all(ok(v) for v in x)
                        for x in c['ref'] + c['act'])
                and c['actual_as'] in ('frame', 'csv'))
    except Exception:
        return False


def run_csv(case, ctx):
    import csv as csvmod
    import pandas as pd
    from tdda.referencetest.referencetest import ReferenceTest
    out = Outcome()
    c = case['csv']
    d = ctx.fresh_dir()

    def write(path, columns):
        with open(path, 'w', encoding='utf-8', newline='') as f:
            w = csvmod.writer(f)
            w.writerow(['id'] + c['names'])
            for r in range(len(c['ids'])):
                w.writerow([c['ids'][r]] + ['' if col[r] is None else col[r]
                                           for col in columns])
    ref_path = os.path.join(d, 'ref.csv')
    write(ref_path, c['ref'])
    expect = c['ref'] == c['act']
    out.label('entry:csv-reference', 'csv-edit:' + c['edit'],
              'expect:' + ('pass' if expect else 'fail'),
              'actual-as:' + c['actual_as'])
    out.nontrivial = any(v in ('NA', 'n/a', 'N/A', 'null', 'None', 'nan',
                               '#N/A') or v is None
                         for col in c['ref'] + c['act'] for v in col)
    rec = Recorder()
    rt = ReferenceTest(rec)
    rt.pandas.tmp_dir = os.path.join(d, 'tmp')
    os.makedirs(rt.pandas.tmp_dir)
    rt.pandas.verbose = False
    if c['actual_as'] == 'csv':
        act_path = os.path.join(d, 'act.csv')
        write(act_path, c['act'])
        ok, r = quiet(rt.assertOnDiskDataFrameCorrect, act_path, ref_path,
                      check_types=False)
    else:
        frame = pd.DataFrame(dict(
            [('id', pd.Series(c['ids'], dtype='int64'))]
            + [(nm, pd.Series(col, dtype=object))
               for (nm, col) in zip(c['names'], c['act'])]))
        ok, r = quiet(rt.assertDataFrameCorrect, frame, ref_path,
                      check_types=False)
    if not ok:
        out.violate('failure-is-an-assertion', r.bucket(),
                    'CSV reference: %s' % r.detail())
        return out
    got_pass = not rec.failed
    if got_pass != expect:
        out.violate('verdict', 'csv-reference:%s:%s' % (
            'should-pass' if expect else 'should-fail', c['edit']),
            'CSV reference, actual as %s: comparison %s but the cells %s; '
            'reference columns %r, actual columns %r'
            % (c['actual_as'], 'passed' if got_pass else 'failed',
               'agree' if expect else 'differ', c['ref'], c['act']))
    return out


def wide_case():
    """Frames of several hundred integer columns in which one row differs
    in a given number of columns (counts of differences per row, per
    column and in total are all computed by the comparison)."""
    return st.fixed_dictionaries({
        'ncols': st.sampled_from([257, 300, 513, 600]),
        'ndiff': st.sampled_from([0, 1, 255, 256, 256, 256, 257, 512, 512]),
        'rows': st.sampled_from([1, 2, 3]),
        'entry': st.sampled_from(['check_dataframe',
                                  'assertDataFramesEqual']),
    }).map(lambda w: {'wide': dict(w, ndiff=min(w['ndiff'], w['ncols']))})


def valid_wide(w):
    return (isinstance(w, dict) and isinstance(w.get('ncols'), int)
            and 1 <= w['ncols'] <= 700 and isinstance(w.get('ndiff'), int)
            and 0 <= w['ndiff'] <= w['ncols'] and w.get('rows') in (1, 2, 3)
            and w.get('entry') in ('check_dataframe',
                                   'assertDataFramesEqual'))


def run_wide(case, ctx):
    import numpy as np
    import pandas as pd
    from tdda.referencetest.checkpandas import PandasComparison
    from tdda.referencetest.referencetest import ReferenceTest
    w = case['wide']
    out = Outcome()
    ref = pd.DataFrame({'c%03d' % j: np.arange(w['rows'], dtype='int64') + j
                        for j in range(w['ncols'])})
    act = ref.copy()
    for j in range(w['ndiff']):
        act.iloc[w['rows'] - 1, (j * 7) % w['ncols'] if w['ndiff'] * 7 <
                 w['ncols'] else j] += 1
    ndiff = int((act != ref).to_numpy().sum())
    expect = ndiff == 0
    out.label('wide-frame', 'entry:' + w['entry'],
              'expect:' + ('pass' if expect else 'fail:data'))
    out.nontrivial = not expect
    d = ctx.fresh_dir()
    rec = Recorder()
    rt = ReferenceTest(rec)
    rt.pandas.tmp_dir = d
    rt.pandas.verbose = False
    if w['entry'] == 'check_dataframe':
        pc = PandasComparison(print_fn=None, verbose=False, tmp_dir=d)
        ok, r = quiet(pc.check_dataframe, act, ref)
        got = ok and r.failures == 0
    else:
        ok, r = quiet(rt.assertDataFramesEqual, act, ref)
        got = not rec.failed
    if not ok:
        out.violate('failure-is-an-assertion-not-an-internal-error',
                    r.bucket(), 'wide frames: ' + r.detail())
    elif got != expect:
        out.violate('verdict', 'wide:%s' % ('should-pass' if expect
                                            else 'should-fail:data'),
                    '%s %s for frames of %d columns whose last row differs '
                    'in %d of them' % (w['entry'], 'passed' if got
                                       else 'failed', w['ncols'], ndiff))
    return out


def strategy(tier):
    return st.integers(0, 59).flatmap(
        lambda k: csv_case() if k < 6 else wide_case() if k < 9
        else case_strategy(tier))


def valid_desc(d):
    try:
        names = [c['name'] for c in d['cols']]
        if not names or len(set(names)) != len(names):
            return False
        ix = d.get('index')
        if ix is not None and not (isinstance(ix, list) and len(ix) == d['n']
                                   and (all(isinstance(x, int)
                                            and not isinstance(x, bool)
                                            for x in ix)
                                        or all(isinstance(x, str)
                                               for x in ix))):
            return False
        for c in d['cols']:
            if c['kind'] not in KINDS or len(c['cells']) != d['n']:
                return False
            if c.get('retype') is not None and c['retype'] not in RETYPES.get(
                    c['kind'], []):
                return False
            pt = c.get('patch')
            if pt is not None:
                if (c.get('retype') not in ('float64', 'int_of_bool')
                        or set(pt) != {'row', 'value'}
                        or not isinstance(pt['row'], int)
                        or not 0 <= pt['row'] < d['n']
                        or isinstance(pt['value'], bool)
                        or not isinstance(pt['value'], (int, float))
                        or not abs(pt['value']) <= 10**6 + 1):
                    return False
                if c['retype'] == 'int_of_bool' and not isinstance(
                        pt['value'], int):
                    return False
            for v in c['cells']:
                if v is None:
                    if not nullable(c['kind']):
                        return False
                    continue
                k = c['kind']
                if k in ('int64', 'Int64'):
                    if isinstance(v, bool) or not isinstance(v, int) or not (
                            -2**63 <= v < 2**63):
                        return False
                    if abs(v) > 10**6 and c.get('retype') not in (
                            None, 'Int64', 'int64', 'ostr_num'):
                        return False
                elif k in ('float64', 'Float64', 'float32'):
                    if isinstance(v, bool) or not isinstance(
                            v, (int, float)) or v != v or abs(v) > 1e7:
                        return False
                elif k in ('bool', 'boolean'):
                    if not isinstance(v, bool):
                        return False
                elif k in ('dt64ns', 'dttz'):
                    F.parse_dt(v)
                elif not isinstance(v, str) or '\x00' in v:
                    return False
        build(d)
        return True
    except Exception:
        return False


def valid(case):
    if 'wide' in case:
        return valid_wide(case['wide'])
    if 'csv' in case:
        return valid_csv(case['csv'])
    if not (valid_desc(case.get('ref', {})) and valid_desc(
            case.get('act', {}))):
        return False
    o = case.get('opts')
    if not isinstance(o, dict):
        return False
    for k in ('check_data', 'check_types', 'check_order', 'check_extra_cols'):
        v = o.get(k)
        if not isinstance(v, dict) or v.get('form') not in (
                'none', 'false', 'list', 'func') or not isinstance(
                v.get('cols'), list):
            return False
        if v['form'] in ('list', 'func') and not v['cols']:
            return False
    ref_names = [c['name'] for c in case['ref']['cols']]
    act_names = [c['name'] for c in case['act']['cols']]
    for k in ('check_data', 'check_types', 'check_order'):
        if any(c not in ref_names for c in o[k]['cols']):
            return False
    if any(c not in act_names for c in o['check_extra_cols']['cols']):
        return False
    if o.get('sortby_form', 'list') not in ('list', 'func-first'):
        return False
    if o.get('sortby_form') == 'func-first' and o.get('sortby') and (
            ref_names[:1] != ['k']):
        return False
    if o.get('sortby') not in (None, ['k']) or (
            o.get('sortby') and 'k' not in ref_names):
        return False
    if o.get('sortby') and 'k' not in act_names and (
            o['check_types']['form'] != 'none'):
        # a sort key absent from the actual frame is only specified when
        # it is also reported as a missing (type-checked) column
        return False
    cnd = o.get('condition')
    if isinstance(cnd, dict):
        if set(cnd) != {'first'} or not isinstance(cnd['first'], int) or (
                isinstance(cnd['first'], bool)) or cnd['first'] < 0:
            return False
    elif cnd is not None and (
            not isinstance(cnd, int) or 'k' not in ref_names
            or 'k' not in act_names):
        return False
    for d in (case['ref'], case['act']):
        for c in d['cols']:
            if c['name'] == 'k' and (c['kind'] != 'int64' or len(set(
                    c['cells'])) != len(c['cells'])):
                return False
    if o.get('precision') not in (None, 0, 1, 2, 3, 6, 8, 10):
        return False
    if o.get('type_matching') not in (None, 'strict', 'medium',
                                      'permissive'):
        return False
    # the float edits are only meaningful as constructed: a shrunk case
    # must keep every differing float pair clearly apart or clearly equal
    p = 6 if o['precision'] is None else o['precision']
    for (a, b) in float_pairs(case):
        d = abs(a - b)
        if d != 0 and not (d <= 10.0 ** -(p + 1.5) or d >= 2.5 * 10.0 ** -p):
            return False
        if d != 0 and d <= 10.0 ** -(p + 1.5):
            # must sit on an exact p-decimal so both round alike
            if abs(b * 10 ** p - round(b * 10 ** p)) > 1e-6:
                return False
    if case.get('entry') != 'check_dataframe' and (
            o['check_extra_cols']['form'] != 'none'):
        return False
    if str(case.get('entry')).startswith('assertOnDisk') and (
            o['type_matching'] is not None):
        return False
    for c in case['act']['cols']:
        if c.get('retype') == 'float32x' and o['precision'] in (0, 1, 2):
            return False
        if c.get('patch') is not None and c['retype'] == 'float64':
            # clear of the rounding grey zone, like every float difference
            dd = abs(c['patch']['value'] - c['cells'][c['patch']['row']])
            pp = 6 if o['precision'] is None else o['precision']
            if not (dd >= 2.5 * 10.0 ** -pp or dd <= 10.0 ** -(pp + 1.5)):
                return False
    return case.get('entry') in ENTRIES


def float_pairs(case):
    out = []
    ref = {c['name']: c for c in case['ref']['cols']}
    if case['ref']['n'] != case['act']['n']:
        return out
    for c in case['act']['cols']:
        r = ref.get(c['name'])
        if r and c['kind'] in ('float64', 'Float64', 'float32') and (
                r['kind'] == c['kind']) and not case['opts'].get('sortby'):
            for (a, b) in zip(c['cells'], r['cells']):
                if a is not None and b is not None:
                    out.append((float(a), float(b)))
    return out


# --------------------------------------------------------------- building

def build_col(c):
    import numpy as np
    import pandas as pd
    kind, cells = c['kind'], c['cells']
    rt = c.get('retype')
    if kind == 'pstr':
        s = pd.Series(cells, dtype='str')
    elif kind == 'dt64ns':
        s = pd.Series(np.array([np.datetime64('NaT') if v is None
                                else np.datetime64(v) for v in cells],
                               dtype='datetime64[ns]'))
    elif kind == 'dttz':
        s = pd.Series(np.array([np.datetime64('NaT') if v is None
                                else np.datetime64(v) for v in cells],
                               dtype='datetime64[ns]')).dt.tz_localize('UTC')
    else:
        s = F.build_series({'kind': kind, 'cells': cells, 'name': 'x'})
    if rt == 'dt_us':
        s = s.dt.as_unit('us')
    elif rt == 'dt_obj':
        s = s.astype(object)
    if rt == 'int32':
        s = s.astype('int32')
    elif rt == 'float64':
        s = s.astype('float64')
    elif rt == 'Int64':
        s = s.astype('Int64')
    elif rt == 'ostr_num':
        s = pd.Series([str(v) for v in cells], dtype=object)
    elif rt == 'float32x':
        s = s.astype('float32')
    elif rt == 'Float64':
        s = s.astype('Float64')
    elif rt == 'boolean':
        s = s.astype('boolean')
    elif rt == 'bool':
        s = s.astype('bool')
    elif rt == 'int64':
        s = s.astype('int64')
    elif rt == 'string':
        s = pd.Series(pd.array([pd.NA if v is None else v for v in cells],
                               dtype='string'))
    elif rt == 'pstr':
        s = pd.Series(cells, dtype='str')
    elif rt == 'cat':
        s = pd.Series(pd.Categorical(cells))
    elif rt == 'int_of_bool':
        s = s.astype('int64')
    if c.get('patch') is not None:
        s = s.copy()
        s.iloc[c['patch']['row']] = c['patch']['value']
    return s


def build(d):
    import pandas as pd
    df = pd.DataFrame({c['name']: build_col(c) for c in d['cols']})
    if d.get('index') is not None:
        df.index = pd.Index(d['index'])
    return df


def as_option(o, which):
    if o['form'] == 'none':
        return None
    if o['form'] == 'false':
        return False
    if o['form'] == 'list':
        return list(o['cols'])
    cols = list(o['cols'])
    return lambda df: list(cols)


# ------------------------------------------------------------------ model

def loosen(name):
    n = ''.join(ch for ch in name if not ch.isdigit()).lower()
    if '[' in n:
        n = n[:n.index('[')]
    return 'bool' if n == 'boolean' else n


def types_match_model(a, b, level):
    if a == b:
        return True
    if level in (None, 'strict'):
        return False
    la, lb = loosen(a), loosen(b)
    if la == lb:
        return True
    objlike = ('string', 'bool', 'datetime')
    if (la == 'object' and lb in objlike) or (lb == 'object'
                                              and la in objlike):
        return True
    if level == 'permissive' and la in ('bool', 'int', 'float') and lb in (
            'bool', 'int', 'float'):
        return True
    return False


def resolve(o, names):
    if o['form'] == 'none':
        return list(names)
    if o['form'] == 'false':
        return []
    return list(o['cols'])


def cell_equal(a, b, p):
    if a is None or b is None:
        return a is None and b is None
    if isinstance(a, bool) or isinstance(b, bool):
        return a == b
    if isinstance(a, int) and isinstance(b, int):
        return a == b
    if isinstance(a, (int, float)) and isinstance(b, (int, float)):
        return abs(float(a) - float(b)) <= 10.0 ** -(p + 1)
    return a == b


def model(case, ref_df, act_df):
    """
    Returns (passes, reasons, unspecified) from the descriptions, the dtype
    names of the frames actually compared, and the resolved options.
    """
    o = case['opts']
    ref, act = case['ref'], case['act']
    rn = [c['name'] for c in ref['cols']]
    an = [c['name'] for c in act['cols']]
    reasons = []
    level = o['type_matching']
    sel_types = resolve(o['check_types'], rn)
    sel_extra = resolve(o['check_extra_cols'], an)
    sel_data = resolve(o['check_data'], rn)
    rt = {c: ref_df[c].dtype.name for c in rn}
    at = {c: act_df[c].dtype.name for c in an}

    def eff(t):     # categoricals are compared as strings
        return 'string' if t == 'category' else t
    missing = [c for c in sel_types if c not in an]
    if missing:
        reasons.append(('missing', missing))
    for c in sel_types:
        if c in an and not types_match_model(eff(at[c]), eff(rt[c]), level):
            reasons.append(('type', [c]))
    extra = [c for c in sel_extra if c not in rn]
    if extra:
        reasons.append(('extra', extra))
    if o['check_order']['form'] != 'false' and not missing:
        sel_order = resolve(o['check_order'], rn)
        o1 = [c for c in an if c in sel_order and c in rn]
        o2 = [c for c in rn if c in sel_order and c in an]
        if o1 != o2:
            reasons.append(('order', o1))
    # rows
    rcols = {c['name']: rcols_vals(c) for c in ref['cols']}
    acols = {c['name']: rcols_vals(c) for c in act['cols']}
    rrows = list(range(ref['n']))
    arows = list(range(act['n']))
    if o['sortby'] and not any(k in missing for k in o['sortby']):
        rrows.sort(key=lambda i: rcols['k'][i])
        arows.sort(key=lambda i: acols['k'][i])
    if isinstance(o['condition'], dict):
        rrows = rrows[:o['condition']['first']]
        arows = arows[:o['condition']['first']]
    elif o['condition'] is not None:
        rrows = [i for i in rrows if rcols['k'][i] >= o['condition']]
        arows = [i for i in arows if acols['k'][i] >= o['condition']]
    if len(rrows) != len(arows):
        reasons.append(('rows', [len(arows), len(rrows)]))
    if not reasons:
        p = 6 if o['precision'] is None else o['precision']
        for c in sel_data:
            if c not in an:
                reasons.append(('missing-data-column', [c]))
                continue
            for (i, j) in zip(arows, rrows):
                if not cell_equal(acols[c][i], rcols[c][j], p):
                    reasons.append(('data', [c]))
                    break
    return (not reasons), reasons


def rcols_vals(c):
    if c['kind'] == 'float32':
        vals = [None if v is None else F.py_float(v, 'float32')
                for v in c['cells']]
    else:
        vals = list(c['cells'])
    rt = c.get('retype')
    if rt == 'ostr_num':
        vals = [str(v) for v in vals]
    elif rt == 'float32x':
        vals = [None if v is None else F.py_float(v, 'float32')
                for v in vals]
    elif rt == 'int_of_bool':
        vals = [int(v) for v in vals]
    if c.get('patch') is not None:
        vals[c['patch']['row']] = c['patch']['value']
    return vals


WORDS = {
    'missing': ['Missing columns'], 'extra': ['Extra columns'],
    'type': ['Wrong column type'], 'order': ['column ordering'],
    'rows': ['different numbers of rows'],
    'data': ['different values', 'Difference', 'differ'],
    'missing-data-column': ['Missing', 'missing', 'column'],
}


def quiet(fn, *a, **kw):
    so, se = sys.stdout, sys.stderr
    sys.stdout, sys.stderr = io.StringIO(), io.StringIO()
    try:
        return call(fn, *a, **kw)
    finally:
        sys.stdout, sys.stderr = so, se


def run(case, ctx):
    if 'wide' in case:
        return run_wide(case, ctx)
    if 'csv' in case:
        return run_csv(case, ctx)
    import pandas as pd
    from tdda.referencetest.checkpandas import PandasComparison
    from tdda.referencetest.referencetest import ReferenceTest
    out = Outcome()
    o = case['opts']
    entry = case['entry']
    d = ctx.fresh_dir()
    ref_df = build(case['ref'])
    act_df = build(case['act'])
    ref_path = act_path = None
    if entry.endswith(':parquet'):
        ref_path = os.path.join(d, 'ref.parquet')
        try:
            ref_df.to_parquet(ref_path)
            cmp_ref = pd.read_parquet(ref_path)
            cmp_act = act_df
            if entry.startswith('assertOnDisk'):
                act_path = os.path.join(d, 'actual.parquet')
                act_df.to_parquet(act_path)
                cmp_act = pd.read_parquet(act_path)
                if case['ref']['n'] % 2 == 0:
                    # both files carry one time stamp (cp -p, rsync -t, an
                    # unpacked archive): equal size and time say nothing
                    # about equal content
                    for p_ in (ref_path, act_path):
                        os.utime(p_, (1600000000, 1600000000))
                    out.label('on-disk:same-mtime')
                    if os.path.getsize(ref_path) == os.path.getsize(
                            act_path):
                        out.label('on-disk:same-mtime-and-size')
        except Exception as e:
            out.label('not-parquet-storable')
            return out
    else:
        cmp_ref, cmp_act = ref_df, act_df
    expect, reasons = model(case, cmp_ref, cmp_act)
    if expect or all(r[0] == 'data' for r in reasons):
        # float32 against float64: rounding a float32 column is itself
        # inexact (399.25 -> 399.249969 at 6 places), so whether such a
        # pair is "equal after rounding" is left unspecified
        sel = resolve(o['check_data'], list(cmp_ref))
        for c in sel:
            if c in cmp_act and {cmp_ref[c].dtype.name,
                                 cmp_act[c].dtype.name} == {'float32',
                                                            'float64'}:
                out.label('unspecified:float32-vs-float64-data')
                return out
    # rows compared position by position after a shuffle without a sort can
    # pair floats that differ by an amount inside the rounding grey zone of
    # the requested precision (0.25 vs 0.5 at precision 0 both round to 0):
    # whether such a pair is "equal after rounding" is left unspecified
    pz = 6 if o['precision'] is None else o['precision']
    for (a_, b_) in float_pairs(case):
        d_ = abs(a_ - b_)
        if d_ != 0 and not (d_ <= 10.0 ** -(pz + 1.5)
                            or d_ >= 2.5 * 10.0 ** -pz):
            out.label('unspecified:rounding-grey-zone')
            return out
    kinds = sorted(set(r[0] for r in reasons))
    edit = case['edit'].get('edit', '?')
    out.label('entry:' + entry.split(':')[0], 'edit:' + edit,
              'expect:' + ('pass' if expect else 'fail:' + '+'.join(kinds)))
    if case['edit'].get('labels'):
        out.label('row-labels:' + case['edit']['labels'])
    out.nontrivial = (not expect) or edit in ('cell_small',) or (
        edit != 'identical' and expect)
    kw = dict(check_data=as_option(o['check_data'], 'ref'),
              check_types=as_option(o['check_types'], 'ref'),
              check_order=as_option(o['check_order'], 'ref'),
              check_extra_cols=as_option(o['check_extra_cols'], 'act'),
              sortby=o['sortby'],
              condition=((lambda df: __import__('numpy').arange(len(df))
                          < o['condition']['first'])
                         if isinstance(o['condition'], dict) else
                         (lambda df: df['k'] >= o['condition'])
                         if o['condition'] is not None else None),
              precision=o['precision'], type_matching=o['type_matching'])
    if entry != 'check_dataframe':
        kw.pop('check_extra_cols')
    if o['sortby'] and o.get('sortby_form') == 'func-first':
        kw['sortby'] = lambda frame: list(frame)[:1]
        out.label('sortby-as-function')
    rec = Recorder()
    rt = ReferenceTest(rec)
    rt.pandas.tmp_dir = os.path.join(d, 'tmp')
    os.makedirs(rt.pandas.tmp_dir)
    rt.pandas.verbose = False
    msg = ''
    in_memory = entry in ('check_dataframe', 'assertDataFramesEqual')
    if entry == 'check_dataframe':
        pc = PandasComparison(print_fn=None, verbose=False,
                              tmp_dir=rt.pandas.tmp_dir)
    if (o['sortby'] and in_memory and case['act']['n'] % 2 == 1
            and all(k in act_df for k in o['sortby'])):
        # a history: the caller's one list of sort keys (a module constant)
        # was first used for a comparison whose actual frame lacks a key
        # column (that comparison rightly fails); then for this one
        lacking = act_df.drop(columns=o['sortby'][:1])
        if entry == 'check_dataframe':
            quiet(pc.check_dataframe, lacking, ref_df.copy(), **kw)
        else:
            quiet(rt.assertDataFramesEqual, lacking, ref_df.copy(), **kw)
        rec.calls = []
        out.label('history:sort-keys-list-used-before-with-missing-column')
    if entry == 'check_dataframe':
        ok, r = quiet(pc.check_dataframe, act_df, ref_df, **kw)
        if ok:
            got_pass = (r.failures == 0)
            msg = r.diffs.message()
            if r.failures not in (0, 1):
                out.violate('failure-shape', 'failures-count',
                            'failures=%r' % (r.failures,))
    elif entry == 'assertDataFramesEqual':
        ok, r = quiet(rt.assertDataFramesEqual, act_df, ref_df, **kw)
        got_pass = not rec.failed
    elif entry.startswith('assertDataFrameCorrect'):
        ok, r = quiet(rt.assertDataFrameCorrect, act_df, ref_path, **kw)
        got_pass = not rec.failed
    else:
        kw.pop('type_matching')
        ok, r = quiet(rt.assertOnDiskDataFrameCorrect, act_path, ref_path,
                      **kw)
        got_pass = not rec.failed
    if not ok:
        out.violate('failure-is-an-assertion-not-an-internal-error',
                    r.bucket(), '%s, edit %s, model says %s %r: %s'
                    % (entry, edit, 'pass' if expect else 'fail', reasons,
                       r.detail()))
        return out
    if entry != 'check_dataframe':
        msg = '\n'.join(m or '' for (okk, m) in rec.calls if not okk)
    if got_pass != expect:
        out.violate('verdict', '%s:%s' % ('should-pass' if expect
                                          else 'should-fail:' + '+'.join(
                                              kinds), edit),
                    '%s %s but the model says %s %r; edit %r; options %r; '
                    'ref dtypes %r actual dtypes %r'
                    % (entry, 'passed' if got_pass else 'failed',
                       'pass' if expect else 'fail', reasons, case['edit'],
                       {k: v for (k, v) in o.items()
                        if v not in (None, {'form': 'none', 'cols': []})},
                       {c: t.name for (c, t) in cmp_ref.dtypes.items()},
                       {c: t.name for (c, t) in cmp_act.dtypes.items()}))
        return out
    if not got_pass:
        if not msg.strip():
            out.violate('failure-carries-description', 'empty',
                        '%s failed with an empty message' % entry)
        else:
            for (kind, what) in reasons[:1]:
                words = WORDS[kind]
                named = any(str(c) in msg for c in what
                            if isinstance(c, str))
                if not named and not any(w in msg for w in words):
                    out.violate('failure-carries-description',
                                'no-mention:' + kind,
                                '%s: difference %s %r not described in %r'
                                % (entry, kind, what, msg[:300]))
    if o['sortby'] and in_memory and got_pass and len(act_df) > 1:
        # a history: a frame derived from the one just compared (same rows,
        # other order; pandas hands the first frame's attrs on to it) is
        # compared with the same sort keys
        if case['ref']['n'] % 2:
            derived = act_df.iloc[::-1]
        else:
            derived = pd.concat([act_df.iloc[1:], act_df.iloc[:1]])
        rec.calls = []
        if entry == 'check_dataframe':
            ok3, r3 = quiet(pc.check_dataframe, derived, ref_df, **kw)
            got3 = ok3 and r3.failures == 0
        else:
            ok3, r3 = quiet(rt.assertDataFramesEqual, derived, ref_df, **kw)
            got3 = not rec.failed
        out.label('history:derived-frame-compared-again-with-sortby')
        if not ok3 or not got3:
            out.violate('verdict', 'derived-frame:should-pass',
                        '%s passed, but the same rows in another order '
                        '(a frame derived from the one just compared) '
                        'fail with the same sortby %r: %s'
                        % (entry, o['sortby'],
                           r3.detail() if not ok3 else
                           (r3.diffs.message() if entry == 'check_dataframe'
                            else rec.calls)))
    if o['type_matching'] in ('medium', 'permissive') and entry in (
            'check_dataframe', 'assertDataFramesEqual'):
        # a history: the same pair compared again at the other loose level
        # (what was decided about a pair of dtypes at one level says
        # nothing about the other)
        other = 'permissive' if o['type_matching'] == 'medium' else 'medium'
        case2 = dict(case, opts=dict(o, type_matching=other))
        expect2, reasons2 = model(case2, cmp_ref, cmp_act)
        kw2 = dict(kw, type_matching=other)
        rec.calls = []
        if entry == 'check_dataframe':
            ok2, r2 = quiet(pc.check_dataframe, act_df, ref_df, **kw2)
            got2 = ok2 and r2.failures == 0
        else:
            ok2, r2 = quiet(rt.assertDataFramesEqual, act_df, ref_df, **kw2)
            got2 = not rec.failed
        out.label('history:second-comparison-at-other-level')
        if ok2 and got2 != expect2:
            out.violate('verdict', 'second-comparison:%s-after-%s'
                        % (other, o['type_matching']),
                        '%s at %s (after the same comparison at %s) %s but '
                        'the model says %s %r; ref dtypes %r actual dtypes %r'
                        % (entry, other, o['type_matching'],
                           'passed' if got2 else 'failed',
                           'pass' if expect2 else 'fail', reasons2,
                           {c: t.name for (c, t) in cmp_ref.dtypes.items()},
                           {c: t.name for (c, t) in cmp_act.dtypes.items()}))
    return out


TECHNIQUE = ('model-based property testing (Hypothesis): one tagged edit per '
             'case, verdict compared with a reference model of the '
             'comparison options; exception-type oracle for the failure '
             'path')
LEVEL_TEXT = ('Generated (reference, actual) frame pairs that differ by one '
              'known edit, crossed with every form of the check_* options, '
              'sortby, condition, precision and type-matching level, through '
              'four entry points; pass/fail is compared with an independent '
              'model and every failure must be an assertion with a '
              'descriptive message.')
LEVEL_NOTE = ('Trusted: tv.props.c05.model (about 90 lines), pandas parquet '
              'round trip for the on-disk entry points (performed by the '
              'harness, so the model sees the dtypes tdda sees).')
