"""
C08 -- database discovery is sound and database verification notices
violating rows (exercised on SQLite).
"""

import datetime
import json
import math
import os
import re
import sqlite3

from hypothesis import strategies as st

from tv.core import Outcome
from tv.gen import frames as F
from tv.gen import sqlite as S
from tv.gen import text as T
from tv import refmodel as R
from tv.props import c03

ID = 'C08'
BUDGET = {'quick': 2500, 'thorough': 80000}
RULE = ('SQLite database files with one table t of 1-4 columns declared '
        'integer / int / bigint / real / float / double / text / varchar / '
        'boolean / bool / datetime / date / timestamp; 0-12 rows; any null '
        'pattern; text from the A-text alphabet with weight on quotes, '
        'backslashes, percent signs, empty strings and unicode; column '
        'names needing quoting (spaces, keywords, unicode, mixed case); x '
        'inc_rex. History per case: create -> discover -> write .tdda -> '
        'verify (closure: no error, 0 failures) -> for every discovered '
        'constraint of a perturbable kind: insert one row built to break it '
        '(other columns NULL) -> verify (that verdict must be false) -> '
        'delete the row -> ... -> final closure check. Non-trivial: >=1 '
        'non-null value and >=1 perturbation applied; distinct by case '
        'hash.')
RULE += ' ' + 'Also: column names with %, {}, ?, [], $ and implementation-like names (columns, fields, cache, rows, types, name, count ...); in most cases the database file first holds a decoy table with the same column names and rotated declared types that is discovered and verified, then is deleted and recreated; 1 case in 60 is a constructed table of 1100 / 4200 distinct strings whose extremes sort last, or of 501 / 620 / 733 differently shaped strings (as many expressions); 28-row tables with 21-28 differently shaped strings.'
RULE += (' A third of the cases run the whole history through ONE long-lived '
         'library connection on a WAL-mode database while the rows are added '
         'and removed by other connections; column names that differ only '
         'in the case of a non-ASCII letter.')
RULE += ' ' + "Round 7: a third of the min / max / sign perturbations of real columns insert +-infinity; column names #, #lines, '# of rows'."
RULE += ' ' + 'Round 8: column names pattern, rexes, val, x, n; in half of the held-connection histories the violating row is added through the held connection and not committed.'
ASSUMPTIONS = ['NaN reals, fractional-second datetimes, table names needing '
               'quotes and column names containing a double quote are not '
               'generated (outside what the SQLite support documents)']

SQL_TEXT = ["o'k", '"q"', 'back\\slash', '100%', '', ' ', "''", 'a\'b"c',
            'semi;colon', '--dash', 'tab\there', 'new\nline', 'é', '中文',
            'ABC', 'abc', 'a1', 'B2', '12', 'x_y', 'NULL', 'null',
            'C:\\data\\in', '\\d+', 'it''s', '%s', '?', ':p', '$1', '😀']
AWKWARD_COLS = ['select', 'from', 'order', 'group by', 'a b', 'é', '中', 'Mixed',
                'x-y', "it's", 'a.b', '1st', 'col', 'value', 'index', 't',
                'share %', '% done', '%s', '%d x', 'a%%b', '{0}', '{x}',
                'a:b', '?', '[x]', '$1', 'semi;',
                # names of things the implementation keeps per table
                'columns', 'fields', 'cache', 'rows', 'types', 'name',
                'count', 'nulls', 'table',
                # distinct for SQLite, equal under Python's lower()
                'É', 'Ünit', 'ünit',
                # a leading '#' marks a comment only among constraint kinds
                '#', '#lines', '# of rows',
                # names a query might use for its own purposes
                'pattern', 'rexes', 'val', 'x', 'n']


def text_values():
    no_nul = T.a_text(0, 8).map(lambda s: s.replace('\x00', '\x01'))
    return st.one_of(st.sampled_from(SQL_TEXT), st.sampled_from(SQL_TEXT),
                     no_nul, T.text_of(T.LOWER, 1, 4),
                     T.text_of(T.DIGITS, 1, 4))


# more differently-shaped strings than any cap on the number of categories
# or expressions (MAX_CATEGORIES is 20): every sequence of up to four runs
# of letters / white space / punctuation, each needing its own expression
VARIED_SHAPES = [''.join({'C': 'ab', ' ': ' ', '.': '-'}[c] for c in t)
                 for n_ in (1, 2, 3, 4)
                 for t in __import__('itertools').product('C .', repeat=n_)
                 if all(t[i] != t[i + 1] for i in range(n_ - 1))]


def big_table(draw):
    """More distinct values than any cap on what is fetched for a column
    (1000, 4000): built, not drawn; the values that sort last are the
    longest / the shortest / of another shape."""
    n = draw(st.sampled_from([1100, 4200, 620]))
    if n == 620:
        # hundreds of differently shaped strings: as many expressions (and
        # as many REGEXP terms in the verification query)
        import itertools
        sigs = [''.join({'C': 'ab', ' ': ' ', '.': '-'}[c] for c in t)
                for n_ in range(1, 9)
                for t in itertools.product('C .', repeat=n_)
                if all(t[i] != t[i + 1] for i in range(n_ - 1))]
        k = draw(st.sampled_from([501, 620, 733]))
        cols = [{'name': 'txt', 'kind': 'ostr', 'cells': sigs[:k]}]
        fr = S.restrict_frame({'n': k, 'cols': cols})
        for c in fr['cols']:
            c['decl'] = S.DECLS[c['kind']][0]
        return fr
    tail = draw(st.sampled_from(['longer', 'shorter', 'other-shape']))
    k = 12
    body = ['k%05d' % i for i in range(n - k)]
    if tail == 'longer':
        last = ['zzzzzzzzzzzz%02d' % i for i in range(k)]
    elif tail == 'shorter':
        last = ['z%d' % i for i in range(10)] + ['y', 'z']
    else:
        last = ['z-%02d:%d' % (i, i) for i in range(k)]
    cells = body + last
    step = draw(st.sampled_from([1, 7, 11]))
    cells = [cells[(i * step) % n] for i in range(n)]
    cols = [{'name': 'txt', 'kind': 'ostr', 'cells': cells},
            {'name': 'num', 'kind': 'int64',
             'cells': [(i * 37) % 5003 for i in range(n)]}]
    fr = S.restrict_frame({'n': n, 'cols': cols})
    for c in fr['cols']:
        c['decl'] = S.DECLS[c['kind']][0]
    return fr


@st.composite
def table(draw):
    if draw(st.integers(0, 59)) == 0:
        return big_table(draw)
    n = draw(st.sampled_from([0, 1, 2, 3, 3, 4, 5, 6, 8, 12, 12, 28]))
    ncols = draw(st.integers(1, 4))
    names = draw(st.lists(st.one_of(st.sampled_from(AWKWARD_COLS),
                                    st.sampled_from(['a', 'b', 'c', 'd'])),
                          min_size=ncols, max_size=ncols,
                          unique_by=S.sql_fold))
    cols = []
    for nm in names:
        kind = draw(st.sampled_from(['int64', 'float64', 'boolean', 'ostr',
                                     'ostr', 'dt64s']))
        if kind == 'ostr':
            vs = text_values()
        else:
            vs = F.value_strategy(kind)
        mode = draw(st.sampled_from(['pool', 'pool', 'distinct', 'allnull',
                                     'onevalue']))
        if kind == 'ostr' and n == 28 and mode != 'allnull':
            k = draw(st.integers(21, 28))
            shapes = list(draw(st.permutations(VARIED_SHAPES)))[:k]
            cells = [shapes[i % k] for i in range(n)]
        elif mode == 'allnull':
            cells = [None] * n
        else:
            if mode == 'distinct':
                pool = draw(st.lists(vs, min_size=max(1, n),
                                     max_size=max(1, n), unique_by=repr))
                cells = list(pool[:n])
            else:
                pool = draw(st.lists(vs, min_size=1,
                                     max_size=1 if mode == 'onevalue' else 5))
                cells = [draw(st.sampled_from(pool)) for _ in range(n)]
            if n:
                for _ in range(draw(st.sampled_from([0, 0, 1, 2]))):
                    cells[draw(st.integers(0, n - 1))] = None
        cols.append({'name': nm, 'kind': kind, 'cells': cells})
    fr = S.restrict_frame({'n': n, 'cols': cols})
    for c in fr['cols']:
        c['decl'] = draw(st.sampled_from(S.DECLS[c['kind']][:3]))
    keyable = [c for c in fr['cols'] if c['kind'] == 'ostr' and len(set(
        v for v in c['cells'] if v is not None)) == len(
        [v for v in c['cells'] if v is not None])]
    if keyable and draw(st.integers(0, 3)) == 0:
        keyable[0]['decl'] = 'text PRIMARY KEY'
    return fr


def strategy(tier):
    return st.fixed_dictionaries({'frame': table(),
                                  'inc_rex': st.booleans(),
                                  'avoid_known': st.sampled_from(
                                      [True] * 7 + [False])}).map(steer)


def steer(case):
    case['steered'] = []
    case.pop('avoid_known')
    return case


def valid(case):
    fr = case.get('frame', {})
    return (F.valid_frame(fr) and S.valid_for_sqlite(fr)
            and isinstance(case.get('inc_rex'), bool))




def fmt_dt(v):
    return '%04d-%02d-%02d %02d:%02d:%02d' % (v.year, v.month, v.day, v.hour,
                                              v.minute, v.second)


def perturbation(col, kind, cvalue, fc, vals):
    """
    A value for one extra row that breaks constraint `kind` of this column
    (None means: no perturbation can be built).  Returns (ok, sql_value).
    """
    k = col['kind']
    nn = [v for v in vals if v is not None]
    if kind == 'min' and nn:
        m = min(nn)
        if k == 'int64':
            return (m > -2**63, m - 1)
        if k == 'float64':
            if len(nn) % 3 == 0:
                return (True, -math.inf)     # (SQLite stores infinities)
            v = m - 1.0 if abs(m) < 1e15 else math.nextafter(m, -math.inf)
            return (v < m and not math.isinf(v), v)
        if k == 'boolean':
            return (m == 1, 0)
        if k == 'dt64s':
            try:
                v = m - datetime.timedelta(seconds=1)
            except OverflowError:
                return (False, None)
            return (True, fmt_dt(v))
    if kind == 'max' and nn:
        m = max(nn)
        if k == 'int64':
            return (m < 2**63 - 1, m + 1)
        if k == 'float64':
            if len(nn) % 3 == 0:
                return (True, math.inf)
            v = m + 1.0 if abs(m) < 1e15 else math.nextafter(m, math.inf)
            return (v > m and not math.isinf(v), v)
        if k == 'boolean':
            return (m == 0, 1)
        if k == 'dt64s':
            try:
                v = m + datetime.timedelta(seconds=1)
            except OverflowError:
                return (False, None)
            return (True, fmt_dt(v))
    if kind == 'min_length':
        return (cvalue >= 1, 'x' * (cvalue - 1))
    if kind == 'max_length':
        return (True, 'x' * (cvalue + 1))
    if kind == 'allowed_values':
        v = 'NEWCAT'
        while v in cvalue:
            v += '_'
        return (True, v)
    if kind == 'no_duplicates' and nn:
        v = nn[0]
        return (True, S.sql_value(k, v) if k != 'dt64s' else fmt_dt(v))
    if kind == 'max_nulls':
        nulls = len(vals) - len(nn)
        return (nulls + 1 > cvalue, None)
    if kind == 'rex':
        for cand in ['\x01~Ω 9zZ!', 'zz zz zz zz 99 !!', '\x7f', 'Ω',
                     '0' * 40, '~', ' x ']:
            if not any(re.match(re.compile(r, R.FLAGS), cand)
                       for r in cvalue):
                return (True, cand)
        return (False, None)
    if kind == 'sign':
        bad = {'positive': -1, 'non-negative': -1, 'zero': 1,
               'non-positive': 1, 'negative': 1}.get(cvalue)
        if bad is None:
            return (False, None)
        if k == 'float64':
            bad = float(bad) * (math.inf if len(nn) % 3 == 1 else 1.0)
        if k == 'boolean':
            return (False, None)
        return (True, bad)
    return (False, None)


def run(case, ctx):
    out = Outcome()
    out.excluded = list(case.get('steered', []))
    desc = case['frame']
    d = ctx.fresh_dir()
    path = os.path.join(d, 'd.sqlite3')
    tdda_path = os.path.join(d, 't.tdda')
    if len(desc['cols']) % 2 == 1 or desc['n'] % 2 == 1:
        # a history: the file held a table of the same name, with the same
        # column names but other declared types, and was used; it has been
        # deleted and recreated since
        rot = ['int64', 'float64', 'boolean', 'ostr', 'dt64s']
        vals = {'int64': [1, 2], 'float64': [1.5, 2.5],
                'boolean': [True, False], 'ostr': ['x', 'yy'],
                'dt64s': ['2001-01-01T00:00:00', '2002-02-02T00:00:00']}
        decoy = {'n': 2, 'cols': []}
        for c in desc['cols']:
            k = rot[(rot.index(c['kind']) + 1 + len(c['name'])) % len(rot)]
            if k == c['kind']:
                k = rot[(rot.index(k) + 1) % len(rot)]
            decoy['cols'].append({'name': c['name'], 'kind': k,
                                  'cells': list(vals[k]),
                                  'decl': S.DECLS[k][0]})
        S.create_db(decoy, path)
        okd, cd = S.discover(decoy, ctx, inc_rex=case['inc_rex'], path=path)
        if okd and cd is not None:
            okt, td = S.quiet_call(cd.to_json)
            if okt:
                with open(tdda_path, 'w', encoding='utf-8') as f:
                    f.write(td)
                S.verify(path, tdda_path)
        out.label('history:database-file-recreated')
    S.create_db(desc, path)
    held = None
    if (len(desc['cols']) + desc['n']) % 3 == 0:
        # one long-lived library connection for the whole history, on a
        # database in WAL mode (readers do not block writers); the rows are
        # added and removed by other connections
        con = sqlite3.connect(path)
        con.execute('PRAGMA journal_mode=WAL')
        con.close()
        held = S.connect(path)
        out.label('history:one-long-lived-connection-wal')
    try:
        return run_history(case, ctx, out, desc, path, tdda_path, held)
    finally:
        if held is not None:
            held.connection.close()


def run_history(case, ctx, out, desc, path, tdda_path, held):
    out.label('rex' if case['inc_rex'] else 'norex',
              'rows:%s' % ('0' if desc['n'] == 0 else '1+'))
    if desc['n'] > 1000:
        out.label('more-than-1000-distinct-values')
    for c in desc['cols']:
        out.label('decl:' + c['decl'].lower())
    ok, cons = S.discover(desc, ctx, inc_rex=case['inc_rex'], path=path,
                          db=held)
    if not ok:
        out.violate('discovery-never-raises', cons.bucket(), cons.detail())
        return out
    if cons is None:
        out.label('nothing-discovered')
        return out
    ok, text = S.quiet_call(cons.to_json)
    if not ok:
        out.violate('discovery-never-raises', text.bucket(), text.detail())
        return out
    with open(tdda_path, 'w', encoding='utf-8') as f:
        f.write(text)
    fields = json.loads(text)['fields']

    def closure(tag):
        ok, v = S.verify(path, tdda_path, db=held)
        if not ok:
            out.violate('verification-never-raises', v.bucket(),
                        '%s: %s' % (tag, v.detail()))
            return None
        bad = [(f, k) for (f, fr) in v.fields.items()
               for (k, x) in fr.items() if not x]
        if bad or v.failures:
            for (f, k) in bad or [('?', '?')]:
                col = next((c for c in desc['cols'] if c['name'] == f), None)
                out.violate('closure', '%s:%s' % (col['kind'] if col else '?',
                                                  k),
                            '%s: %s on field %r (%s) fails on the table it '
                            'was discovered from; discovered %r; data %r'
                            % (tag, k, f, col['decl'] if col else '?',
                               fields.get(f), col['cells'][:10] if col
                               else None))
        return v

    v0 = closure('closure')
    if v0 is None:
        return out
    nonnull = any(x is not None for c in desc['cols'] for x in c['cells'])
    applied = 0
    names = [c['name'] for c in desc['cols']]
    for c in desc['cols']:
        fc = fields.get(c['name'], {})
        vals = S.truth_values(c)
        for (kind, cvalue) in fc.items():
            if kind == 'type':
                continue
            good, val = perturbation(c, kind, cvalue, fc, vals)
            if not good:
                continue
            row = [None] * len(names)
            row[names.index(c['name'])] = val
            # (with a held connection, every other history adds the row
            # through that very connection and does not commit it)
            own = held is not None and desc['n'] % 2 == 0
            con = held.connection if own else sqlite3.connect(path)
            try:
                con.execute('INSERT INTO t VALUES (%s)'
                            % ', '.join('?' for _ in names), row)
                if not own:
                    con.commit()
            except sqlite3.IntegrityError:
                out.label('database-refuses-the-row')
                if not own:
                    con.close()
                continue
            if own:
                out.label('history:row-added-uncommitted-on-the-same-'
                          'connection')
            else:
                con.close()
            applied += 1
            out.label('perturb:' + kind)
            ok, v = S.verify(path, tdda_path, db=held)
            if not ok:
                out.violate('verification-never-raises', v.bucket(),
                            'after adding a row breaking %s of %r: %s'
                            % (kind, c['name'], v.detail()))
            else:
                got = v.fields.get(c['name'], {}).get(kind)
                if got is None or bool(got):
                    out.violate('violating-row-noticed', '%s:%s'
                                % (c['kind'], kind),
                                'added row with %r=%r to break %s=%r '
                                '(declared %s; data %r) but verification '
                                'still reports it satisfied'
                                % (c['name'], val, kind, cvalue, c['decl'],
                                   c['cells'][:10]))
            con = held.connection if own else sqlite3.connect(path)
            con.execute('DELETE FROM t WHERE rowid = (SELECT MAX(rowid) '
                        'FROM t)')
            con.commit()
            if not own:
                con.close()
    if applied:
        closure('closure after insert/delete history')
    out.nontrivial = nonnull and applied > 0
    return out


TECHNIQUE = ('property-based testing (Hypothesis) over generated SQLite '
             'tables: closure oracle plus a metamorphic single-row '
             'perturbation per discovered constraint, run as an '
             'insert/verify/delete history')
LEVEL_TEXT = ('Generated SQLite tables (typed columns, hostile text, odd '
              'column names); discovery -> .tdda -> verification must be '
              'clean, and each discovered constraint must be reported failed '
              'after inserting one row built to break it.')
LEVEL_NOTE = ('Trusted: sqlite3 module, the perturbation builder (checked '
              'against Python re for rex). SQLite only.')
