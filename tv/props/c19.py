"""
C19 -- tagged runs execute exactly the tagged tests; listing runs none.
"""

import importlib.util
import io
import os
import re
import subprocess
import sys
import unittest

from hypothesis import strategies as st

from tv.core import Outcome, case_hash, call, repo_root

ID = 'C19'
BUDGET = {'quick': 2400, 'thorough': 80000}
RULE = ('Generated test modules: 1-4 classes (ReferenceTestCase or plain '
        'unittest.TestCase), 1-4 test methods each, @tag on any subset of '
        'methods and on classes without subclasses, single inheritance '
        '(subclasses inherit tagged and untagged methods, may override); '
        'every test logs "<runtime class>.<method>" and passes. argv: '
        'unittest flags (-v -q -f -b --locals) before and after the tdda '
        'flags (-1 --tagged -0 --istagged, none / one / both), clusters '
        '(-1v, -v1, -1W, -01), optional class names, optional trailing -W / '
        '-w kind. Oracle: executed-test log == set computed from the module '
        'description (each once); list mode runs nothing and prints exactly '
        '<module>.<Class> for classes owning tagged tests; differential '
        'against plain unittest.main for the argv with the tdda flags '
        'removed (accepted / rejected alike). In-process '
        'ReferenceTestCase.main(exit=False); a sample runs as a real '
        '`python module.py argv` subprocess. Non-trivial: module has tagged '
        'and untagged tests and argv has a tdda flag plus another token; '
        'distinct by case hash.')
RULE += ' ' + "Also: arbitrary single-dash groups mixing v q f b with 1 0 W (tdda letters first, last or inside); unittest's -k PATTERN; --write-all anywhere among the options; modules with a load_tests hook that builds its tests by hand in nested suites; both --tagged and --istagged passed to referencepytest.tagged()."
RULE += ' ' + 'Round 6: every third test method is wrapped by a functools.wraps decorator with @tag above it, every third with @tag beneath it.'
RULE += ' ' + 'Round 7: one class in nine has no test methods (tagged or not); such a class holds no tagged tests.'
RULE += ' ' + 'Round 8: the long options written after the class names.'
RULE += ' ' + 'Round 8 (pytest side): with an even number of classes the collection holds a second file, a copy of the module under another name - the same class names in two modules are different classes, and both are listed.'
ASSUMPTIONS = ['naming an individual method, tdda single-dash flags after a '
               'class name, and tagging a base class that has subclasses are '
               'not generated (left unspecified by the statement)']

UNITTEST_FLAGS = ['-v', '-q', '-f', '-b', '--locals']
CLASS_NAMES = ['TestA', 'TestB', 'TestC', 'TestD']
METHODS = ['test_a', 'test_b', 'test_c', 'test_d']


@st.composite
def module_desc(draw):
    n = draw(st.integers(1, 4))
    classes = []
    for i in range(n):
        name = CLASS_NAMES[i]
        base = None
        if i > 0 and draw(st.integers(0, 2)) == 0:
            base = draw(st.sampled_from(CLASS_NAMES[:i]))
            if [c for c in classes if c['name'] == base][0]['methods'] == [
                    'runTest']:
                base = None
        kind = draw(st.sampled_from(['ReferenceTestCase', 'ReferenceTestCase',
                                     'unittest.TestCase']))
        methods = draw(st.lists(st.sampled_from(METHODS), min_size=1,
                                max_size=4, unique=True))
        if base is None and draw(st.integers(0, 7)) == 0:
            # a class in unittest's older style: no test_* methods, one
            # runTest method (never used as a base class here)
            methods = ['runTest']
        if base is None and methods != ['runTest'] and draw(
                st.integers(0, 8)) == 0:
            # a class with no tests of its own (fixtures and helpers only);
            # it may well carry the tag
            methods = []
        tagged = draw(st.lists(st.sampled_from(methods), max_size=len(
            methods), unique=True)) if methods else []
        classes.append({'name': name, 'base': base, 'kind': kind,
                        'methods': sorted(methods),
                        'tagged_methods': sorted(tagged),
                        'class_tag': draw(st.sampled_from([False, False,
                                                           True]))})
    bases = set(c['base'] for c in classes if c['base'])
    for c in classes:
        if c['name'] in bases:
            c['class_tag'] = False
        if c['base']:
            c['kind'] = None
    return {'classes': classes,
            'load_tests': draw(st.sampled_from([False, False, True]))}


@st.composite
def argv_desc(draw, classes):
    before = draw(st.lists(st.sampled_from(UNITTEST_FLAGS), max_size=2,
                           unique=True))
    tdda = draw(st.sampled_from([
        [], ['-1'], ['--tagged'], ['-0'], ['--istagged'], ['-1', '-0'],
        ['--tagged', '--istagged'], ['-1v'], ['-v1'], ['-1W'], ['-01'],
        ['-1', '--istagged'], ['-0', '--tagged'], ['-1'], ['--tagged'],
        ['-0'], ['cluster'], ['cluster'], ['cluster']]))
    if tdda == ['cluster']:
        # one single-dash group mixing unittest's letters with tdda's, in
        # any arrangement: -v1f, -f0v, -1W, -qW1 ...
        letters = draw(st.lists(st.sampled_from('vqfb'), max_size=2,
                                unique=True)) + draw(st.lists(
                                    st.sampled_from('10W'), min_size=1,
                                    max_size=2, unique=True))
        tdda = ['-' + ''.join(draw(st.permutations(letters)))]
        if draw(st.booleans()):
            ul = draw(st.lists(st.sampled_from('vqfb'), min_size=2,
                               max_size=2, unique=True))
            tl = draw(st.lists(st.sampled_from('10W'), min_size=1,
                               max_size=2, unique=True))
            tdda = ['-' + ul[0] + ''.join(tl) + ul[1]]
    after = draw(st.lists(st.sampled_from(UNITTEST_FLAGS), max_size=2,
                          unique=True))
    after = [f for f in after if f not in before]
    order = draw(st.sampled_from(['before-tdda-after', 'tdda-first',
                                  'tdda-last']))
    names = draw(st.lists(st.sampled_from([c['name'] for c in classes]),
                          max_size=2, unique=True))
    if names and draw(st.integers(0, 5)) == 0:
        # the same class named twice: its tests run twice, tagged or not
        names = names + [names[0]]
    if draw(st.integers(0, 9)) == 0:
        # a name that cannot be loaded: an error of the run, with or
        # without the tagged option (not combined with the listing option)
        names = names + ['TestMissing']
    tail = draw(st.sampled_from([[], [], [], ['-W'], ['--write-all'],
                                 ['-w', 'table'], ['--write', 'a,b']]))
    if tail == ['-W'] and names:
        # a single-dash tdda flag after a class name is left unspecified
        tail = ['--write-all']
    if order == 'before-tdda-after':
        flags = before + tdda + after
    elif order == 'tdda-first':
        flags = tdda + before + after
    else:
        flags = before + after + tdda
    if any(tdda_flag(f) and tdda_flag(f)[1] for f in flags):
        names = [n for n in names if n != 'TestMissing']
    d = {'flags': flags, 'names': names, 'tail': tail}
    # unittest's own -k PATTERN, given after the single-dash flags; not
    # together with the listing option (what a narrowed listing names is
    # not specified)
    if not any(tdda_flag(f) and tdda_flag(f)[1] for f in flags) and draw(
            st.integers(0, 3)) == 0:
        d['k'] = draw(st.sampled_from(K_PATTERNS))
        if tail == ['-W']:
            # as after a class name: the single-dash options are over
            tail = d['tail'] = ['--write-all']
    # --write-all may stand anywhere among the options
    if tail == ['--write-all']:
        d['tail_pos'] = draw(st.sampled_from(['end', 'first',
                                              'before-names']))
    return d


# (none of them can match the generated module name tvmod_<hex>)
K_PATTERNS = ['test_a', 'test_b', 't_c', 'TestA', 'TestB.test', 'st_d',
              'A.test_b']


def assemble(argv, flags=None):
    """The command line (without the program name)."""
    flags = list(argv['flags'] if flags is None else flags)
    k = ['-k', argv['k']] if argv.get('k') else []
    tail = list(argv.get('tail') or [])
    pos = argv.get('tail_pos', 'end')
    if argv.get('names_first') and not k and not tail and flags and all(
            f in ('--tagged', '--istagged') for f in flags):
        # the long options written after the class names
        return list(argv['names']) + flags
    return ((tail if pos == 'first' else []) + flags + k
            + (tail if pos == 'before-names' else []) + list(argv['names'])
            + (tail if pos == 'end' else []))


@st.composite
def case_strategy(draw, tier):
    m = draw(module_desc())
    a = draw(argv_desc(m['classes']))
    a['names_first'] = bool(a['names']) and draw(st.booleans())
    if m.get('load_tests') or any(c['methods'] == ['runTest']
                                  for c in m['classes']):
        # -k does not reach tests a hook builds by hand, and unittest falls
        # back to runTest when -k leaves a class no test_* names
        a.pop('k', None)
    return {'module': m, 'argv': a,
            'subprocess': draw(st.integers(0, 49)) == 0}


def strategy(tier):
    return case_strategy(tier)


def valid(case):
    try:
        cl = case['module']['classes']
        names = [c['name'] for c in cl]
        if not cl or len(set(names)) != len(names):
            return False
        for i, c in enumerate(cl):
            if c['name'] not in CLASS_NAMES:
                return False
            if c['base'] is not None and c['base'] not in names[:i]:
                return False
            if c['methods'] == ['runTest']:
                if c['base'] is not None or any(
                        x['base'] == c['name'] for x in cl):
                    return False
            elif any(m not in METHODS for m in c['methods']):
                return False
            if any(m not in c['methods'] for m in c['tagged_methods']):
                return False
            if c['base'] is None and c['kind'] not in (
                    'ReferenceTestCase', 'unittest.TestCase'):
                return False
        bases = set(c['base'] for c in cl if c['base'])
        if any(c['class_tag'] and c['name'] in bases for c in cl):
            return False
        a = case['argv']
        if any(n not in names + ['TestMissing'] for n in a['names']):
            return False
        if 'TestMissing' in a['names'] and any(
                tdda_flag(f) and tdda_flag(f)[1] for f in a['flags']):
            return False
        for f in a['flags']:
            if f not in UNITTEST_FLAGS + ['--tagged', '--istagged'] and not (
                    re.match(r'^-[vqfb10W]{1,4}$', f)
                    and len(set(f[1:])) == len(f) - 1
                    and any(ch in f for ch in '10W')):
                return False
        if a['tail'] == ['-W'] and a['names']:
            return False
        if a.get('k') is not None and (a['k'] not in K_PATTERNS
                                       or a['tail'] == ['-W']
                                       or case['module'].get('load_tests')
                                       or any(c['methods'] == ['runTest']
                                              for c in cl)):
            return False
        if a.get('tail_pos', 'end') not in ('end', 'first', 'before-names'):
            return False
        if a.get('tail_pos', 'end') != 'end' and a['tail'] != ['--write-all']:
            return False
        return a['tail'] in ([], ['-W'], ['--write-all'], ['-w', 'table'],
                             ['--write', 'a,b'])
    except Exception:
        return False


def module_source(desc, logpath):
    lines = ['import functools', 'import unittest',
             'from tdda.referencetest import ReferenceTestCase, tag', '',
             'def wrapped(fn):',
             '    @functools.wraps(fn)',
             '    def inner(self, *a, **kw):',
             '        return fn(self, *a, **kw)',
             '    return inner', '',
             'LOG = %r' % logpath, '',
             'def log(self, name):',
             '    with open(LOG, "a") as f:',
             '        f.write("%s.%s\\n" % (type(self).__name__, name))', '']
    for c in desc['classes']:
        if c['class_tag']:
            lines.append('@tag')
        base = c['base'] or c['kind']
        lines.append('class %s(%s):' % (c['name'], base))
        if not c['methods']:
            lines += ['    def helper(self):', '        return 1', '']
        for (i, m) in enumerate(c['methods']):
            # every third method goes through a functools.wraps decorator,
            # with @tag (if any) above it; every third with @tag beneath it
            layout = (i + len(c['name'])) % 3
            if layout == 2:
                lines.append('    @wrapped')
            if m in c['tagged_methods']:
                lines.append('    @tag')
            if layout == 1:
                lines.append('    @wrapped')
            lines.append('    def %s(self):' % m)
            lines.append('        log(self, %r)' % m)
            lines.append('')
        lines.append('')
    if desc.get('load_tests'):
        # unittest's load_tests protocol, with suites nested by hand
        lines += ['def load_tests(loader, tests, pattern):',
                  '    suite = unittest.TestSuite()',
                  '    for cls in (%s,):' % ', '.join(
                      c['name'] for c in desc['classes']),
                  '        inner = unittest.TestSuite()',
                  '        names = (unittest.TestLoader()'
                  '.getTestCaseNames(cls)',
                  '                 or (["runTest"] if hasattr(cls, '
                  '"runTest") else []))',
                  '        inner.addTests(cls(m) for m in names)',
                  '        suite.addTest(unittest.TestSuite([inner]))',
                  '    return suite', '']
    lines += ['if __name__ == "__main__":',
              '    ReferenceTestCase.main()', '']
    return '\n'.join(lines)


def model(desc, argv):
    """
    Returns dict: mode ('run'|'tagged'|'list'), expected executed multiset
    (list of 'Class.method'), expected listed classes.
    """
    cl = {c['name']: c for c in desc['classes']}

    def resolve(cname):
        """method -> tagged? for every test method visible on the class"""
        c = cl[cname]
        meths = dict(resolve(c['base'])) if c['base'] else {}
        for m in c['methods']:
            meths[m] = m in c['tagged_methods']
        return meths

    def class_tagged(cname):
        c = cl[cname]
        return c['class_tag'] or (c['base'] is not None
                                  and class_tagged(c['base']))
    flags = argv['flags']
    tagged = any(tdda_flag(f)[0] for f in flags if tdda_flag(f))
    check = any(tdda_flag(f)[1] for f in flags if tdda_flag(f))
    selected = [n for n in argv['names'] if n in cl] or (
        [] if argv['names'] else [c['name'] for c in desc['classes']])
    all_tests, tag_tests, listed = [], [], []
    for cname in selected:
        meths = resolve(cname)
        ct = class_tagged(cname)
        for (m, t) in sorted(meths.items()):
            all_tests.append('%s.%s' % (cname, m))
            if t or ct:
                tag_tests.append('%s.%s' % (cname, m))
        if meths and (ct or any(meths.values())):
            listed.append(cname)    # (a class without tests holds none)
    if argv.get('k'):
        # unittest's -k: substring match on "<module>.<Class>.<method>"
        all_tests = [t for t in all_tests if argv['k'] in '.' + t]
        tag_tests = [t for t in tag_tests if argv['k'] in '.' + t]
    if check:
        return {'mode': 'list', 'executed': [], 'listed': sorted(listed)}
    if tagged:
        return {'mode': 'tagged', 'executed': sorted(tag_tests),
                'listed': None}
    return {'mode': 'run', 'executed': sorted(all_tests), 'listed': None}


def tdda_flag(f):
    """None for an argument tdda does not consume; else (tagged, check,
    what is left of the argument for unittest or None)."""
    if f == '--tagged':
        return (True, False, None)
    if f == '--istagged':
        return (False, True, None)
    if f.startswith('-') and not f.startswith('--') and any(
            ch in f[1:] for ch in '10W'):
        rest = ''.join(ch for ch in f[1:] if ch not in '10W')
        return ('1' in f, '0' in f, ('-' + rest) if rest else None)
    return None


def plain_argv(argv):
    out = []
    for f in argv['flags']:
        t = tdda_flag(f)
        if t is None:
            out.append(f)
        elif t[2]:
            out.append(t[2])
    return out + (['-k', argv['k']] if argv.get('k') else []) + list(
        argv['names'])


def read_log(path):
    if not os.path.exists(path):
        return []
    with open(path) as f:
        return sorted(ln.strip() for ln in f if ln.strip())


def run_main(fn, **kw):
    """Run a unittest-style main in-process; returns (status, stdout, stderr)
    where status is 'ok', ('exit', code) or a TddaRaised."""
    so, se = sys.stdout, sys.stderr
    sys.stdout, sys.stderr = io.StringIO(), io.StringIO()
    try:
        try:
            ok, r = call(fn, **kw)
            status = 'ok' if ok else r
        except SystemExit as e:
            status = ('exit', e.code)
        return status, sys.stdout.getvalue(), sys.stderr.getvalue()
    finally:
        sys.stdout, sys.stderr = so, se


class _Item(object):
    def __init__(self, obj, name):
        self.obj = obj
        self.name = name


class _Config(object):
    def __init__(self, **opts):
        self.opts = opts

    def getoption(self, name, default=None):
        return self.opts.get(name, default)


def check_pytest_tagged(out, desc, mod, modname, exp, both=False,
                        modpath=None):
    from tdda.referencetest import referencepytest
    mods = [(mod, modname)]
    twin = None
    if modpath and len(desc['classes']) % 2 == 0:
        # a second test file, a copy of the first under another name: the
        # same class names in two modules are different classes
        twin = modname + '_twin'
        spec = importlib.util.spec_from_file_location(twin, modpath)
        mod2 = importlib.util.module_from_spec(spec)
        sys.modules[twin] = mod2
        try:
            spec.loader.exec_module(mod2)
            mods.append((mod2, twin))
            out.label('pytest-tagged:two-files-same-class-names')
        except Exception:
            sys.modules.pop(twin, None)
            twin = None
    try:
        _check_pytest_tagged(out, desc, mods, exp, both)
    finally:
        if twin:
            sys.modules.pop(twin, None)


def _check_pytest_tagged(out, desc, mods, exp, both):
    from tdda.referencetest import referencepytest
    items = []
    for (mod, _) in mods:
        for c in desc['classes']:
            cls = getattr(mod, c['name'])
            names = sorted(n for n in dir(cls) if n.startswith('test_'))
            for n in names:
                inst = cls(n)
                items.append(_Item(getattr(inst, n),
                                   '%s.%s' % (c['name'], n)))
    cfg = (_Config(**{'--istagged': True}) if exp['mode'] == 'list'
           else _Config(**{'--tagged': True}))
    if both:        # both options given: listing wins, as on the command line
        cfg = _Config(**{'--istagged': True, '--tagged': True})
        out.label('pytest-tagged:both-options')
    so = sys.stdout
    sys.stdout = io.StringIO()
    try:
        ok, r = call(referencepytest.tagged, cfg, items)
        printed = sys.stdout.getvalue()
    finally:
        sys.stdout = so
    out.label('pytest-tagged')
    if not ok:
        out.violate('never-raises', r.bucket(), 'referencepytest.tagged: '
                    + r.detail())
        return
    kept = sorted(i.name for i in items)
    if kept != sorted(list(exp['executed']) * len(mods)):
        out.violate('pytest-tagged-selection', exp['mode'],
                    'referencepytest.tagged kept %r, expected %r'
                    % (kept, exp['executed']))
    if exp['mode'] == 'list':
        named = set(ln.strip() for ln in printed.split('\n') if ln.strip())
        want = set('%s.%s' % (mn, c) for (_, mn) in mods
                   for c in exp['listed'])
        if named != want:
            out.violate('pytest-tagged-selection', 'listed',
                        'referencepytest.tagged listed %r, classes with '
                        'tagged tests %r' % (sorted(named), sorted(want)))


def run(case, ctx):
    from tdda.referencetest import ReferenceTestCase
    out = Outcome()
    desc, argv = case['module'], case['argv']
    d = ctx.fresh_dir()
    modname = 'tvmod_' + case_hash(case)[:10]
    modpath = os.path.join(d, modname + '.py')
    logpath = os.path.join(d, 'log.txt')
    with open(modpath, 'w') as f:
        f.write(module_source(desc, logpath))
    exp = model(desc, argv)
    # unittest.main(-k ...) stores the patterns on the shared default loader
    # object; a real run is a fresh process, so start from a clean loader
    unittest.defaultTestLoader.testNamePatterns = None
    full_argv = [modpath] + assemble(argv)
    if argv.get('k'):
        out.label('-k pattern')
    if argv.get('tail_pos', 'end') != 'end':
        out.label('write-all-before-other-arguments')
    out.label('mode:' + exp['mode'])
    ntag = sum(len(c['tagged_methods']) + (1 if c['class_tag'] else 0)
               for c in desc['classes'])
    nmeth = sum(len(c['methods']) for c in desc['classes'])
    has_tdda = any(tdda_flag(f) for f in argv['flags'])
    others = len(argv['flags']) + len(argv['names']) + len(argv['tail'])
    out.nontrivial = (0 < ntag and exp['executed'] != model(
        desc, dict(argv, flags=[]))['executed'] or exp['mode'] == 'list'
        ) and has_tdda and others >= 2
    if any(c['base'] for c in desc['classes']):
        out.label('inheritance')
    if desc.get('load_tests'):
        out.label('load_tests-hook')
    if argv['names']:
        out.label('class-names')
    if argv['tail']:
        out.label('write-option')
    for f in argv['flags']:
        if tdda_flag(f) and not f.startswith('--') and len(f) > 2:
            out.label('cluster')
            if len(f) > 3 and f[1] not in '10W' and f[-1] not in '10W':
                out.label('cluster:tdda-letter-inside')

    spec = importlib.util.spec_from_file_location(modname, modpath)
    mod = importlib.util.module_from_spec(spec)
    sys.modules[modname] = mod
    try:
        spec.loader.exec_module(mod)
        # reference: plain unittest with the tdda flags removed
        p_argv = [modpath] + plain_argv(argv)
        pst, pso, pse = run_main(unittest.main, module=mod, argv=list(p_argv),
                                 exit=False)
        plain_ok = pst == 'ok'
        plain_log = read_log(logpath)
        if os.path.exists(logpath):
            os.remove(logpath)
        all_exp = model(desc, dict(argv, flags=[]))['executed']
        if plain_ok and plain_log != all_exp:
            raise RuntimeError('model of plain unittest is wrong: %r vs %r'
                               % (plain_log, all_exp))
        # tdda
        st_, so_, se_ = run_main(ReferenceTestCase.main, module=mod,
                                 argv=list(full_argv), exit=False)
        got_log = read_log(logpath)
    finally:
        sys.modules.pop(modname, None)
    shown = ' '.join(full_argv[1:])
    if not isinstance(st_, (str, tuple)):
        out.violate('never-raises', st_.bucket(), 'argv %r: %s'
                    % (shown, st_.detail()))
        return out
    accepted = st_ == 'ok'
    if accepted != plain_ok:
        out.violate('unittest-options-keep-meaning',
                    'tdda-%s-plain-%s' % ('accepts' if accepted
                                          else 'rejects',
                                          'accepts' if plain_ok
                                          else 'rejects'),
                    'argv %r: tdda main %s (%r) but plain unittest with the '
                    'tdda flags removed (%r) %s; stderr %r'
                    % (shown, 'ran' if accepted else 'exited', st_,
                       ' '.join(p_argv[1:]),
                       'ran' if plain_ok else 'exited %r' % (pst,),
                       se_[-200:]))
        return out
    if not accepted:
        out.label('rejected-by-both')
        return out
    if 'TestMissing' in argv['names']:
        out.label('unloadable-name')
    if ('FAILED' in pse) != ('FAILED' in se_) and exp['mode'] != 'list':
        out.violate('unittest-options-keep-meaning', 'run-outcome',
                    'argv %r: plain unittest (%r) %s, the tdda run %s; '
                    'stderr %r' % (shown, ' '.join(p_argv[1:]),
                                   'FAILED' if 'FAILED' in pse else 'was OK',
                                   'FAILED' if 'FAILED' in se_ else 'was OK',
                                   se_[-300:]))
    if got_log != exp['executed']:
        missing = sorted(set(exp['executed']) - set(got_log))
        extra = sorted(set(got_log) - set(exp['executed']))
        dup = sorted(set(x for x in got_log if got_log.count(x) > 1))
        out.violate('executed-tests', '%s:%s' % (
            exp['mode'], 'missing' if missing else 'extra' if extra
            else 'duplicates'),
            'argv %r (%s mode): executed %r, expected %r (missing %r, '
            'extra %r, repeated %r)' % (shown, exp['mode'], got_log,
                                        exp['executed'], missing, extra,
                                        dup))
    if exp['mode'] == 'list':
        printed = set(ln.strip() for ln in so_.split('\n') if ln.strip())
        want = set('%s.%s' % (modname, c) for c in exp['listed'])
        named = set(p for p in printed if p.startswith(modname + '.'))
        if named != want:
            out.violate('listed-classes', 'set',
                        'argv %r: listed %r, classes with tagged tests %r'
                        % (shown, sorted(named), sorted(want)))
    # the pytest side of the same promise: referencepytest.tagged() on a
    # synthetic collection of this module's tests
    if exp['mode'] in ('tagged', 'list') and not argv['names'] and (
            not argv.get('k')) and not any(
            c['methods'] == ['runTest'] for c in desc['classes']):
        fl = [tdda_flag(f) for f in argv['flags'] if tdda_flag(f)]
        check_pytest_tagged(out, desc, mod, modname, exp,
                            both=(any(t[0] for t in fl)
                                  and any(t[1] for t in fl)),
                            modpath=modpath)
    if case.get('subprocess'):
        out.label('subprocess-sample')
        env = dict(os.environ, PYTHONPATH=repo_root())
        r = subprocess.run([sys.executable, modpath] + full_argv[1:],
                           cwd=d, env=env, stdout=subprocess.PIPE,
                           stderr=subprocess.PIPE, text=True, timeout=120)
        # log was appended to by the subprocess after the in-process run
        sub_log = read_log(logpath)
        extra_runs = list(sub_log)
        for x in got_log:
            if x in extra_runs:
                extra_runs.remove(x)
        ok_codes = (0,) if exp['executed'] else (0, 5)   # 5: no tests ran
        if 'TestMissing' in argv['names']:
            ok_codes = (1,)         # the run has an error
        if r.returncode < 0:
            # killed by a signal while shutting down (a native library's
            # thread): the environment's doing; what ran is still compared
            out.label('subprocess-killed-by-signal-at-exit')
        if sorted(extra_runs) != exp['executed'] or (
                r.returncode >= 0 and r.returncode not in ok_codes):
            out.violate('subprocess-agrees', 'python-module.py',
                        'python module.py %s: exit %d, executed %r, '
                        'expected %r; stderr %r'
                        % (shown, r.returncode, sorted(extra_runs),
                           exp['executed'], r.stderr[-200:]))
    return out


TECHNIQUE = ('model-based property testing (Hypothesis): generated test '
             'modules and argv grammars, executed-test log compared with the '
             'set computed from the module description, differential '
             'against plain unittest.main')
LEVEL_TEXT = ('Generated modules and argv spellings; which test bodies run '
              'is observed through a side-effect log and compared with the '
              'set the description implies; acceptance of argv is compared '
              'with plain unittest given the same argv without tdda flags; '
              'one case in fifty is re-run as a real subprocess.')
LEVEL_NOTE = ('Trusted: unittest itself (the model of "all tests" is '
              'cross-checked against plain unittest.main on every case).')
