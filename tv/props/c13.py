"""
C13 -- every returned expression compiles, is anchored, matches >=1 example,
no duplicates, never more expressions than distinct examples; tagging changes
only the grouping.
"""

import random
import re

from hypothesis import strategies as st

from tv.core import Outcome, call, case_hash
from tv.gen import rex as G
from tv.props import c03

ID = 'C13'
BUDGET = {'quick': 16000, 'thorough': 500000}
RULE = ('C03\'s template-built example multisets and option space plus '
        'max_patterns in {None,1,2,5} and min_strings_per_pattern in '
        '{1,2,3}; list and dict input forms. Each case is extracted with '
        'tag=False and tag=True (same arguments, same RNG state). Oracle: '
        'each expression compiles under UNICODE|DOTALL, starts with ^ and '
        'ends with an unescaped $, matches >=1 kept example, no expression '
        'twice, count <= distinct kept examples (and <= max_patterns), [] '
        'for an empty input; tagged and untagged lists have equal length '
        'and pairwise equal match sets over the kept examples. Non-trivial: '
        'result has >=2 expressions or an expression with a bracket/group; '
        'distinct by case hash.')
RULE += ' ' + 'Also (shared generator): wide rows of 12-60 multi-class fields; examples that are another example plus a final line break; zero-count dictionary keys; punctuation runs sharing exactly one of two extra letters; use_sampling=False Sizes.'
RULE += ' ' + 'Round 8: byte-string input form (UTF-8 with an encoding).'
RULE += ' ' + 'Round 8: one case in forty supplies 150 examples through a check function that reports unmatched strings in a fixed order and at most as many as asked for, so that 40 strings of a second shape, all padded with white space, only turn up in a later pass (strip=True).'
ASSUMPTIONS = ['"matches" is re.match on the anchored expression']


def strategy(tier):
    return st.integers(0, 399).flatmap(
        lambda k: st.just({'fn_case': k}) if k <= 30 and k % 3 == 0
        else usual_strategy(tier))


def usual_strategy(tier):
    return st.fixed_dictionaries({
        'examples': st.one_of(G.examples_strategy(tier),
                              G.examples_strategy(tier),
                              G.examples_strategy(tier),
                              st.lists(st.sampled_from([None, '']),
                                       max_size=3)),
        'opts': G.opts_strategy(with_pruning=True),
        'size': G.size_strategy(),
        'seed': st.sampled_from([None, None, 0, 1, 2, 3]),
        'form': st.sampled_from(['list', 'list', 'dict', 'bytes']),
        'avoid_known': st.sampled_from([True] * 6 + [False]),
        'zero_keys': G.zero_keys_strategy(),
    }).map(c03.steer)


def fn_case_examples(k):
    """110 + k plain strings of one shape, then 40 strings of another shape
    that all carry white space at their ends."""
    plain = ['%s%02d' % ('abcdefghijkl'[i % 12] + 'mnopqrstuvw'[i % 11], i % 100)
             for i in range(110 + k)]
    plain = sorted(set(plain), key=plain.index)
    letters = 'ABCDEFGH'
    padded = [' %s%s-%d\t' % (letters[i % 8], letters[(i // 8) % 8], i % 10)
              for i in range(40)]
    return plain, sorted(set(padded), key=padded.index)


def run_fn_case(case, ctx):
    """The examples come from a check function that reports unmatched
    strings in a fixed order, at most as many as asked for: the padded ones
    only turn up in a later pass."""
    from tdda.rexpy import rexpy
    from tdda.rexpy.rexpy import Examples
    out = Outcome()
    plain, padded = fn_case_examples(case['fn_case'])
    strings = plain + padded

    def check(rexes, maxN=None):
        freqs = [0] * len(rexes)
        fails = []
        pats = [re.compile(r, G.FLAGS) for r in rexes]
        for u in strings:
            for (i, p_) in enumerate(pats):
                if re.fullmatch(p_, u) or re.fullmatch(p_, u.strip()):
                    freqs[i] += 1
                    break
            else:
                fails.append(u)
        if maxN is not None:
            fails = fails[:maxN]
        return Examples(fails), freqs
    out.label('check-function:padded-strings-in-a-later-pass')
    out.nontrivial = True
    for tag in (False, True):
        ok, rexes = call(rexpy.extract, check, strip=True, tag=tag)
        if not ok:
            out.violate('never-raises', rexes.bucket(), rexes.detail())
            continue
        for r in rexes:
            try:
                cr = re.compile(r, G.FLAGS)
            except re.error as e:
                out.violate('compiles', 'invalid:function-input',
                            '%s: %r' % (e, r))
                continue
            if not r.startswith('^') or not ends_with_unescaped_dollar(r):
                out.violate('anchored', 'function-input', repr(r))
            if not any(re.fullmatch(cr, x) for x in strings):
                out.violate('matches-an-example', 'function-input:as-given',
                            '%r (tag=%s) matches none of the %d examples as '
                            'given, e.g. %r (all: %r)'
                            % (r, tag, len(strings), strings[-1], rexes))
    return out


def valid(case):
    if 'fn_case' in case:
        return isinstance(case['fn_case'], int) and 0 <= case['fn_case'] <= 30
    if not isinstance(case.get('examples'), list):
        return False
    c = dict(case)
    if not c['examples']:
        c['examples'] = ['x']
    return c03.valid(c) and case.get('form', 'list') in ('list', 'dict',
                                                         'bytes')


def ends_with_unescaped_dollar(r):
    if not r.endswith('$'):
        return False
    n = 0
    i = len(r) - 2
    while i >= 0 and r[i] == '\\':
        n += 1
        i -= 1
    return n % 2 == 0


def extract_with(case, tag, rng_seed):
    random.seed(rng_seed)
    if case.get('form') == 'bytes':
        # the examples as UTF-8 byte strings with an encoding (nulls left
        # out: with an encoding every entry is decoded)
        from tdda.rexpy import rexpy
        try:
            bs = [x.encode('utf-8') for x in case['examples']
                  if x is not None]
        except UnicodeEncodeError:
            return call(G.run_extract, case, tag=tag, form='list')
        kw = G.extract_kwargs(case)
        kw['tag'] = tag
        return call(rexpy.extract, bs, encoding='utf-8', **kw)
    return call(G.run_extract, case, tag=tag)


def run(case, ctx):
    if 'fn_case' in case:
        return run_fn_case(case, ctx)
    out = Outcome()
    out.excluded = list(case.get('steered', []))
    o = case['opts']
    kept = G.kept_examples(case)
    distinct = sorted(set(kept))
    dialect = o.get('dialect', 'portable')
    sampling = G.sampling_path(case, len(distinct))
    rng_seed = int(case_hash(case)[:8], 16)
    ok_u, untagged = extract_with(case, False, rng_seed)
    ok_t, tagged = extract_with(case, True, rng_seed)
    out.label('dialect:' + dialect)
    if sampling:
        out.label('sampling-path')
    if o.get('max_patterns') is not None:
        out.label('max_patterns')
    if o.get('min_strings_per_pattern', 1) > 1:
        out.label('min_strings_per_pattern>1')
    for (ok, r) in ((ok_u, untagged), (ok_t, tagged)):
        if not ok:
            out.violate('never-raises', r.bucket(), r.detail())
    if not (ok_u and ok_t):
        return out
    if not distinct:
        out.label('empty-input')
        for (name, r) in (('untagged', untagged), ('tagged', tagged)):
            if r != []:
                out.violate('empty-input-gives-none', name,
                            'no kept examples but got %r' % (r,))
        return out
    known_nad = (dialect in ('portable', 'grep')
                 and any(c03.has_nonascii_decimal(x) for x in distinct))
    raw = sorted(set(x for x in case['examples'] if x is not None and not (
        o.get('remove_empties') and x.strip() == '')))
    match_sets = {}
    for (name, rexes) in (('untagged', untagged), ('tagged', tagged)):
        sets = []
        for r in rexes:
            try:
                cr = re.compile(r, G.FLAGS)
            except re.error as e:
                out.violate('compiles', 'invalid:' + name,
                            '%s: %r from %r' % (e, r, rexes))
                sets.append(None)
                continue
            if not r.startswith('^') or not ends_with_unescaped_dollar(r):
                out.violate('anchored', name, 'not anchored: %r' % r)
            ms = frozenset(x for x in distinct if re.match(cr, x))
            sets.append(ms)
            if not ms:
                detail = '%r matches none of %r (all: %r)' % (r, distinct,
                                                               rexes)
                out.violate('matches-an-example', name, detail)
            elif o.get('strip') and not any(re.fullmatch(cr, x)
                                            for x in raw):
                # the expressions allow for the white space stripped: an
                # example AS GIVEN is matched too
                out.violate('matches-an-example', name + ':as-given',
                            '%r matches none of the examples as given %r '
                            '(all: %r)' % (r, raw, rexes))
        match_sets[name] = sets
        if len(set(rexes)) != len(rexes):
            out.violate('no-duplicates', name, 'duplicates in %r' % (rexes,))
        if len(rexes) > len(distinct):
            out.violate('count<=distinct', name,
                        '%d expressions for %d distinct examples: %r'
                        % (len(rexes), len(distinct), rexes))
        mp = o.get('max_patterns')
        if mp is not None and len(rexes) > mp:
            out.violate('count<=max_patterns', name,
                        '%d expressions, max_patterns=%d' % (len(rexes), mp))
    if len(untagged) != len(tagged):
        out.violate('tag-changes-only-grouping', 'length',
                    'untagged %r vs tagged %r' % (untagged, tagged))
    else:
        for i, (a, b) in enumerate(zip(match_sets['untagged'],
                                       match_sets['tagged'])):
            if a is not None and b is not None and a != b:
                out.violate('tag-changes-only-grouping', 'match-set',
                            'expression %d: %r matches %r but %r matches %r'
                            % (i, untagged[i], sorted(a), tagged[i],
                               sorted(b)))
                break
    out.nontrivial = (len(untagged) >= 2
                      or any('[' in r or '(' in r for r in untagged + tagged))
    if len(untagged) >= 2:
        out.label('multi-expression')
    return out


TECHNIQUE = ('property-based testing (Hypothesis) with a validity oracle per '
             'expression plus a tag/no-tag metamorphic relation')
LEVEL_TEXT = ('Generated-input exploration of rexpy.extract over template-'
              'built example multisets x options incl. max_patterns and '
              'min_strings_per_pattern; every returned expression is compiled '
              'and re-matched with Python re, and tagged vs untagged results '
              'are compared example by example.')
LEVEL_NOTE = ('Trusted: Python re, Hypothesis. Expressions that match no '
              'example because of the two recorded rexpy defects (non-ASCII '
              'decimals under portable/grep, sampling loop) are attributed to '
              'those findings by the same predicates as C03.')


def extra(tier, ctx, info, seed_value):
    import sys
    for x in c03.fuzz_campaign('C13', sys.modules[__name__], tier, ctx, info,
                               seed_value):
        yield x
