"""
C07 -- discovery reports exact statistics of the data (constraints are tight).
DataFrames and SQLite tables with known Python ground truth.
"""

import math

from hypothesis import strategies as st

from tv.core import Outcome
from tv.gen import frames as F
from tv import refmodel as R
from tv.props.c01 import quiet

ID = 'C07'
BUDGET = {'quick': 6000, 'thorough': 200000}
RULE = ('G-frame DataFrames (1-3 columns, every recognised non-tz dtype '
        'kind, 0-12 or 19-26 rows, value pools giving ties, all-distinct, '
        'all-null, exactly 0/1/2 nulls, 1..26 categories) and the same '
        'descriptions materialised as SQLite tables (integer / real / text / '
        'boolean / datetime columns). Oracle: discover_*().to_dict()'
        '["fields"] equals, key for key, the dictionary recomputed from the '
        'generated Python values (tv/refmodel.discovered): type, min/max, '
        'min/max length, sign, max_nulls, no_duplicates, allowed_values. '
        'Non-trivial: >=2 non-null values in some column and >=1 '
        'data-derived constraint; distinct by case hash.')
RULE += ' ' + 'Also (SQLite source): text with NUL characters (U+0001 in the case stands for U+0000), constructed columns of 21-26 distinct strings whose shortest and longest hold a NUL, and a composite UNIQUE constraint over the first two columns whenever their value pairs are distinct.'
RULE += ' ' + 'Round 6 (SQLite source): a composite PRIMARY KEY over the first two columns and single text PRIMARY KEYs, with NULLs put into key columns by construction.'
RULE += ' ' + 'Round 7: column names val, VAL, 2019, 7, n; even-length frames label all-digit column names with the integer itself.'
RULE += ' ' + 'Round 8: a third of the pandas cases discover a null-free earlier version of the frame first and derive the frame under test from it (copy, then mask); SQLite integer columns declared numeric / number, holding 2**53+1 and -(2**53)-3 in even-length tables.'
ASSUMPTIONS = ['no_duplicates on boolean and date fields: only the sound '
               'direction is asserted (statement, docstring and code '
               'disagree on whether it is discovered there)',
               'timezone-aware columns are excluded (C01 finding)']

C07_KINDS = [k for k in F.ALL_KINDS if k not in F.TZ_KINDS]


@st.composite
def many_strings(draw):
    """A SQLite table with a text column of 21-26 distinct values (more
    than the category limit) whose shortest and longest values hold a NUL
    character (written U+0001 in the case, see nul_form)."""
    k = draw(st.integers(21, 26))
    body = ['v%02d-' % i for i in range(k - 2)]
    cells = body + ['q\x01', 'long\x01' + 'x' * draw(st.integers(3, 9))]
    cells = list(draw(st.permutations(cells)))
    if draw(st.booleans()):
        cells.append(None)
    return {'source': 'sqlite', 'nul': True,
            'frame': {'n': len(cells), 'cols': [
                {'name': 's', 'kind': 'ostr', 'cells': cells},
                {'name': 'i', 'kind': 'int64',
                 'cells': list(range(len(cells)))}]}}


def nul_form(desc):
    """The table as materialised in SQLite when the case says 'nul':
    U+0001 stands for U+0000 (which pandas' object hash table cannot carry,
    so the frame generator never emits it)."""
    import copy
    d = copy.deepcopy(desc)
    for c in d['cols']:
        if c['kind'] == 'ostr':
            c['cells'] = [v.replace('\x01', '\x00') if isinstance(v, str)
                          else v for v in c['cells']]
    return d


def strategy(tier):
    usual = st.fixed_dictionaries({
        'source': st.sampled_from(['df', 'df', 'df', 'sqlite']),
        'frame': F.frame_strategy(kinds=C07_KINDS, max_cols=3),
        'nul': st.booleans(),
    })
    return st.integers(0, 19).flatmap(
        lambda k: many_strings() if k == 0 else usual).map(adapt)


def adapt(case):
    if case['source'] == 'sqlite':
        from tv.gen import sqlite as S
        case['frame'] = S.restrict_frame(case['frame'])
        ints = [c for c in case['frame']['cols'] if c['kind'] == 'int64'
                and 'PRIMARY' not in c.get('decl', '')]
        if ints and case['frame']['n'] % 3 != 1:
            ints[0]['decl'] = ('numeric' if case['frame']['n'] % 3 == 0
                               else 'number')
        for c in case['frame']['cols']:
            if (c['kind'] == 'int64' and c.get('decl') in ('numeric',
                                                           'number')
                    and c['cells'] and case['frame']['n'] % 2 == 0):
                # identifiers that no double holds exactly
                c['cells'][0] = 2**53 + 1
                if len(c['cells']) > 1:
                    c['cells'][-1] = -(2**53) - 3
        keyable = [c for c in case['frame']['cols']
                   if c['kind'] == 'ostr' and len(set(
                       v for v in c['cells'] if v is not None)) == len(
                       [v for v in c['cells'] if v is not None])]
        if keyable and case['frame']['n'] % 3 == 0:
            # a text PRIMARY KEY (SQLite lets it hold NULLs)
            keyable[0]['decl'] = 'text PRIMARY KEY'
            if case['frame']['n'] and case['frame']['n'] % 2 == 0:
                keyable[0]['cells'][-1] = None
        if case.get('nul') is False and len(case['frame']['cols']) >= 2:
            # a composite UNIQUE constraint / PRIMARY KEY over the first two
            # columns (only created when their value pairs are in fact
            # distinct); either may hold NULLs
            case['frame']['key'] = ('unique' if case['frame']['n'] % 2
                                    else 'primary')
            c0 = case['frame']['cols'][0]
            if (case['frame']['n'] and case['frame']['n'] % 4 == 0
                    and F.nullable(c0['kind'])):
                c0['cells'][0] = None
    return case


def valid(case):
    fr = case.get('frame', {})
    if case.get('source') not in ('df', 'sqlite') or not F.valid_frame(fr):
        return False
    if any(c['kind'] in F.TZ_KINDS for c in fr['cols']):
        return False
    if case['source'] == 'sqlite':
        from tv.gen import sqlite as S
        return S.valid_for_sqlite(fr)
    return True


def same_value(a, b):
    if isinstance(a, float) or isinstance(b, float):
        try:
            if math.isnan(a) and math.isnan(b):
                return True
        except TypeError:
            return False
        return (type(a) in (int, float, bool) and type(b) in (int, float,
                                                               bool)
                and a == b)
    if isinstance(a, bool) != isinstance(b, bool):
        return False
    return a == b


def compare_field(out, name, kind, got, want, cells, source):
    keys = set(got) | set(want)
    for k in sorted(keys):
        if k == 'no_duplicates' and want.get(k) == 'either':
            continue
        if k not in want:
            if k == 'no_duplicates' and want.get('_nd_either'):
                continue
            out.violate('exact-statistics', 'unexpected:%s:%s' % (
                k, R.actual_type(kind, [None] if not cells else cells)
                if False else k),
                '%s field %r (%s): discovered %s=%r but the data gives no '
                'such constraint; data %r; all discovered: %r'
                % (source, name, kind, k, got[k], cells[:12], got))
        elif k not in got:
            out.violate('exact-statistics', 'missing:' + k,
                        '%s field %r (%s): %s should be %r but was not '
                        'discovered; data %r; discovered: %r'
                        % (source, name, kind, k, want[k], cells[:12], got))
        else:
            g, w = got[k], want[k]
            if k == 'allowed_values':
                ok = list(g) == list(w)
            else:
                ok = same_value(g, w)
            if not ok:
                out.violate('exact-statistics', 'wrong:' + k,
                            '%s field %r (%s): %s discovered as %r, data '
                            'gives %r; data %r'
                            % (source, name, kind, k, g, w, cells[:12]))


def run(case, ctx):
    out = Outcome()
    desc = case['frame']
    source = case['source']
    if source == 'sqlite' and desc.get('key'):
        from tv.gen import sqlite as S
        if S.composite_key(desc):
            out.label('sqlite:composite-unique')
    if source == 'sqlite' and case.get('nul'):
        desc = nul_form(desc)
        if any(isinstance(v, str) and '\x00' in v for c in desc['cols']
               for v in c['cells']):
            out.label('sqlite:text-with-NUL')
    out.label('source:' + source)
    def numeral(nm):
        # (canonical numerals only: '00' and '0' would be one label)
        return nm.isdigit() and nm.isascii() and str(int(nm)) == nm
    int_labels = (source == 'df' and desc['n'] % 2 == 0 and any(
        numeral(c['name']) for c in desc['cols']))

    def label_of(c):
        if int_labels and numeral(c['name']):
            return int(c['name'])
        return c['name']
    if source == 'df':
        from tdda.constraints import discover_df
        df = F.build_frame(desc)
        fillable = {'float64': 1.5, 'Float64': 1.5, 'float32': 1.5,
                    'ostr': 'filled', 'string': 'filled',
                    'Int64': 1, 'Int32': 1, 'boolean': True}
        if desc['n'] and (desc['n'] + len(desc['cols'])) % 3 == 0:
            # a history: the frame is derived (copy, then nulls put back in
            # place) from an earlier version of itself without nulls, from
            # which constraints were discovered a moment ago
            prev = df.copy()
            for c in desc['cols']:
                if c['kind'] in fillable and any(v is None
                                                 for v in c['cells']):
                    prev[c['name']] = prev[c['name']].fillna(
                        fillable[c['kind']])
            quiet(discover_df, prev, inc_rex=False)
            full = df
            df = prev.copy()
            for c in desc['cols']:
                if c['kind'] in fillable and any(v is None
                                                 for v in c['cells']):
                    df[c['name']] = prev[c['name']].mask(
                        full[c['name']].isna())
            out.label('history:derived-from-a-frame-discovered-before')
        if int_labels:
            # column labels that are numbers (a frame read without a header,
            # years as columns): constraints are reported under the label
            df.columns = [label_of(c) for c in desc['cols']]
            out.label('integer-column-labels')
        ok, cons = quiet(discover_df, df, inc_rex=False)
    else:
        from tv.gen import sqlite as S
        ok, cons = S.discover(desc, ctx, inc_rex=False)
    if not ok:
        out.violate('never-raises', cons.bucket(), cons.detail())
        return out
    got_fields = {}
    if cons is not None:
        ok, d = quiet(cons.to_dict)
        if not ok:
            out.violate('never-raises', d.bucket(), d.detail())
            return out
        got_fields = d['fields']
    n = desc['n']
    want_fields = {}
    for c in desc['cols']:
        vals = F.py_values(c)
        if source == 'sqlite':
            from tv.gen import sqlite as S
            vals = S.truth_values(c)
            want = S.discovered(c, vals, n)
        else:
            want = R.discovered(c['kind'], vals, n)
        want_fields[label_of(c)] = (want, c, vals)
        nn = R.nonnull(vals)
        if len(nn) >= 2 and len(want) >= 2:
            out.nontrivial = True
        out.label('type:' + want['type'])
        distinct = len(set(nn))
        if want['type'] == 'string' and distinct in (20, 21):
            out.label('categories:%d' % distinct)
        nnull = len(vals) - len(nn)
        if n and nnull in (1, 2):
            out.label('nulls:%d' % nnull)
        if 'sign' in want:
            out.label('sign:' + want['sign'])
        if 'no_duplicates' in want:
            out.label('all-distinct')
    if set(got_fields) != set(want_fields):
        out.violate('exact-statistics', 'field-set',
                    '%s: fields discovered %r, columns %r'
                    % (source, sorted(got_fields, key=repr),
                       sorted(want_fields, key=repr)))
        return out
    for (name, (want, c, vals)) in want_fields.items():
        got = dict(got_fields[name])
        if want.get('no_duplicates') == 'either' and 'no_duplicates' in got:
            if got['no_duplicates'] is not True:
                out.violate('exact-statistics', 'wrong:no_duplicates',
                            repr(got))
            got.pop('no_duplicates')
        elif 'no_duplicates' in got and 'no_duplicates' not in want:
            pass    # reported below as unexpected
        compare_field(out, name, c['kind'], got, want, c['cells'], source)
    return out


TECHNIQUE = ('property-based testing (Hypothesis) against a reference model: '
             'the discovered dictionary is recomputed from the generated '
             'ground-truth values')
LEVEL_TEXT = ('Generated DataFrames and SQLite tables with known contents; '
              'the complete discovered constraint dictionary is compared, '
              'key by key, with statistics recomputed in plain Python.')
LEVEL_NOTE = ('Trusted: tv/refmodel.discovered (about 50 lines), pandas / '
              'sqlite3 materialisation of the described values.')
