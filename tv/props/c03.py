"""
C03 -- every example string is matched by one of the expressions returned.
"""

import re

from hypothesis import strategies as st

from tv.core import Outcome, call
from tv.gen import rex as G
from tv.gen import text as T

ID = 'C03'
BUDGET = {'quick': 20000, 'thorough': 600000}
RULE = ('Example multisets are built from 1-6 shape templates (1-5 fragments '
        'over 16 character classes incl. punctuation subsets, unicode digits '
        'and letters), each instantiated 1-10 times, plus free A-text, '
        'empties, padded copies, None and repeats; crossed with tag, '
        'extra_letters, full_escape, remove_empties, strip, '
        'variableLengthFrags, dialect in {perl, portable, grep}, Size '
        'settings small enough to force the sampled-attempt loop, seeds and '
        'input form list/dict/Series. Oracle: every kept example is matched '
        'in full (re.fullmatch, UNICODE|DOTALL: a "$" that matches just '
        'before a final line break does not count) by >=1 returned '
        'expression. Non-trivial: >=2 distinct kept examples share one coarse '
        'signature, or the sampling path is taken; distinct by case hash.')
RULE += ' ' + "Also: 'matched in full' is re.fullmatch; examples that are another example plus a final line break; wide rows; zero-count dictionary keys; punctuation runs sharing exactly one of two extra letters; use_sampling=False Sizes."
RULE += ' ' + 'Round 7 (shared generator): invisible non-white-space characters (U+FEFF, U+200B, U+2060) at the ends of examples.'
RULE += ' ' + 'Round 8 (shared generator): genuine values that look like the text form of a null (nan, None, NaT, <NA>); letters followed by combining marks.'
RULE += ' ' + "variableLengthFrags is not combined with examples of more than 24 alternating fragments (applies to all rexpy checks): the dozens of optional fragments rexpy then writes make Python's own matcher exponential on long non-matching strings, which would hang the oracle, not rexpy."
ASSUMPTIONS = ['"matched in full" is re.fullmatch (until session 3 it was '
               'read as re.match on the anchored expression, which hid the '
               'defect repaired by 16bd489)']

F_NONASCII_DECIMAL = 'F-rexpy-nonascii-decimal-portable'
F_SAMPLING = 'F-rexpy-sampling-last-round'


def strategy(tier):
    return st.fixed_dictionaries({
        'examples': G.examples_strategy(tier),
        'opts': G.opts_strategy(with_pruning=False),
        'size': G.size_strategy(),
        'seed': st.sampled_from([None, None, 0, 1, 2, 3, 4, 5]),
        'form': st.sampled_from(['list', 'list', 'dict', 'series',
                                 'series2', 'bytes', 'bytes-dict']),
        'avoid_known': st.sampled_from([True] * 6 + [False]),
        'zero_keys': G.zero_keys_strategy(),
    }).map(steer)


ASCII_FOR = {c: str(i % 10) for i, c in enumerate(T.NONASCII_DECIMALS)}


def steer(case):
    """
    Generator-side exclusion of known-finding regions (counted), and of
    inputs pandas itself cannot carry (NUL inside object strings: pandas'
    object hash table treats 'a\0b' and 'a' as the same key, so
    Series.unique() loses examples before rexpy sees them).
    """
    steered = []
    if case['form'] in ('series', 'series2'):
        if any(x is not None and '\x00' in x for x in case['examples']):
            case['form'] = 'list'
    case.pop('avoid_known')
    case['steered'] = steered
    return case


def valid(case):
    if not isinstance(case.get('examples'), list) or not case['examples']:
        return False
    if not all(x is None or isinstance(x, str) for x in case['examples']):
        return False
    if not isinstance(case.get('opts'), dict):
        return False
    if not G.valid_size(case.get('size')):
        return False
    form = case.get('form', 'list')
    if form not in ('list', 'dict', 'series', 'series2', 'bytes',
                    'bytes-dict'):
        return False
    if form.startswith('series') and any(
            x is not None and '\x00' in x for x in case['examples']):
        return False
    return G.valid_zero_keys(case.get('zero_keys'))


def has_nonascii_decimal(s):
    return any(ord(c) > 127 and re.match(r'\d', c) for c in s)


def call_for_form(case):
    """Returns (ok, rexes-or-raised, form_used)."""
    form = case.get('form', 'list')
    if form in ('series', 'series2'):
        import pandas as pd
        from tdda.rexpy import rexpy
        o = case['opts']
        # pdextract takes only a seed: it is the Series form of the default
        # options, so other options are not applied on this path
        xs = case['examples']
        if form == 'series2' and len(xs) > 1:
            h = len(xs) // 2
            cols = [pd.Series(xs[:h], dtype=object),
                    pd.Series(xs[h:], dtype=object)]
        else:
            cols = pd.Series(xs, dtype=object)
        ok, r = call(rexpy.pdextract, cols, seed=case.get('seed'))
        return ok, r, 'pdextract'
    if form in ('bytes', 'bytes-dict'):
        # the examples as encoded byte strings (nulls left out: with an
        # encoding rexpy decodes every entry)
        from collections import Counter
        from tdda.rexpy import rexpy
        try:
            bs = [x.encode('utf-8') for x in case['examples']
                  if x is not None]
        except UnicodeEncodeError:
            ok, r = call(G.run_extract, case, form='list')
            return ok, r, 'list'
        given = bs if form == 'bytes' else dict(Counter(bs))
        ok, r = call(rexpy.extract, given, encoding='utf-8',
                     **G.extract_kwargs(case))
        return ok, r, form
    ok, r = call(G.run_extract, case)
    return ok, r, form


def effective_case(case, form_used):
    """pdextract uses default options: judge kept examples accordingly."""
    if form_used == 'pdextract':
        c = dict(case)
        c['opts'] = {'dialect': 'portable'}
        c['size'] = None
        return c
    return case


def run(case, ctx):
    out = Outcome()
    out.excluded = list(case.get('steered', []))
    ok, rexes, form_used = call_for_form(case)
    eff = effective_case(case, form_used)
    kept = G.kept_examples(eff)
    distinct = sorted(set(kept))
    out.label('form:' + form_used, 'dialect:' + eff['opts'].get('dialect',
                                                                 'portable'))
    sampling = G.sampling_path(eff, len(distinct))
    if sampling:
        out.label('sampling-path')
    sigs = {}
    for x in distinct:
        sigs.setdefault(G.coarse_sig(x), []).append(x)
    shared = any(len(v) >= 2 for v in sigs.values())
    if shared:
        out.label('shared-signature')
    out.nontrivial = bool(distinct) and (shared or sampling)
    if not ok:
        out.violate('never-raises', rexes.bucket(), rexes.detail())
        return out
    if not distinct:
        out.label('no-kept-examples')
        return out
    try:
        crs = [re.compile(r, G.FLAGS) for r in rexes]
    except re.error as e:
        # C13's concern (validity); here an invalid expression matches nothing
        out.violate('unmatched', 'invalid-regex', '%s in %r' % (e, rexes))
        return out
    unmatched = [x for x in distinct
                 if not any(re.fullmatch(c, x) for c in crs)]
    if eff['opts'].get('strip') and form_used != 'pdextract':
        # with strip=True the expressions allow for the white space that was
        # stripped: the examples AS GIVEN are matched as well
        raw = sorted(set(x for x in eff['examples'] if x is not None and not (
            eff['opts'].get('remove_empties') and x.strip() == '')))
        unmatched += [x for x in raw if x not in distinct
                      and not any(re.fullmatch(c, x) for c in crs)]
    if any(re.match(c, x) and not re.fullmatch(c, x)
           for x in distinct for c in crs):
        out.label('match-but-not-fullmatch-by-some-expression')
    if not unmatched:
        return out
    dialect = eff['opts'].get('dialect', 'portable')
    for x in unmatched:
        if True:
            feats = ['sampling'] if sampling else []
            if any(c in x for c in '^-]\\'):
                feats.append('bracket-specials')
            if eff['opts'].get('strip'):
                feats.append('strip')
            if eff['opts'].get('extra_letters'):
                feats.append('extra_letters')
            if eff['opts'].get('variableLengthFrags'):
                feats.append('vlf')
            if any(ord(c) > 127 for c in x):
                feats.append('nonascii')
            out.violate('unmatched', 'unmatched:' + '+'.join(feats),
                        'example %r not matched by any of %r' % (x, rexes))
    return out

TECHNIQUE = ('property-based testing (Hypothesis, template-built example '
             'multisets x option space) against a validity oracle: every kept '
             'example matched by a returned expression')
LEVEL_TEXT = ('Generated-input exploration: tens of thousands (quick) to '
              'hundreds of thousands (thorough) of example multisets built to '
              'share coarse signatures, crossed with all extraction options, '
              'dialects, Size settings, seeds and input forms; each result is '
              'judged by re-matching every kept example with Python re. It '
              'shows the property held on everything generated, not absence '
              'of counterexamples.')
LEVEL_NOTE = ('Trusted: Python re as the matcher, Hypothesis generation, the '
              'template alphabet (DESIGN section 3). Two recorded defects '
              '(non-ASCII decimal digits under portable/grep; the sampling '
              'loop) are recognised by predicate and reported as '
              'KNOWN-FINDING; strings with NUL are kept out of pandas Series '
              'inputs because pandas itself conflates them.')


# ----------------------------------------------------- coverage-guided tier

def fuzz_campaign(prop, mod, tier, ctx, info, seed_value):
    """
    Thorough tier only: 16 atheris shards on tv.fuzz_rex (C03 and C13
    oracles inside the target), empty corpus, pinned as far as libFuzzer
    allows (-seed, -runs).  Violations recorded by the target are re-run
    here through mod.run, so they go through the same bucket / minimise /
    report path as the Hypothesis tier.
    """
    import json
    import os
    import subprocess
    import sys
    import time
    if tier != 'thorough' or os.environ.get('VERIF_FUZZ') == '0':
        return
    try:
        import atheris   # noqa: F401
    except ImportError:
        info['fuzz'] = {'skipped': 'atheris is not importable'}
        return
    shards = int(os.environ.get('VERIF_JOBS', '0') or 0) or min(
        16, os.cpu_count() or 1)
    runs = int(os.environ.get('VERIF_FUZZ_RUNS', '0') or 0) or 60000
    outdir = os.path.join(ctx.scratch, 'fuzz')
    os.makedirs(outdir, exist_ok=True)
    t0 = time.time()
    procs = []
    for s in range(shards):
        corpus = os.path.join(outdir, 'corpus%02d' % s)
        os.makedirs(corpus, exist_ok=True)
        procs.append(subprocess.Popen(
            [sys.executable, '-m', 'tv.fuzz_rex', outdir, str(s),
             '-runs=%d' % runs, '-seed=%d' % (seed_value * 100 + s + 1),
             '-max_len=384', '-print_final_stats=0', corpus],
            stdout=subprocess.DEVNULL, stderr=subprocess.DEVNULL,
            cwd=os.path.dirname(os.path.dirname(os.path.dirname(
                os.path.abspath(__file__))))))
    for p in procs:
        p.wait()
    execs = nontrivial = 0
    sample = None
    for s in range(shards):
        sp = os.path.join(outdir, 'stats-%d.json' % s)
        if os.path.exists(sp):
            with open(sp) as f:
                st_ = json.load(f)
            execs += st_['execs']
            nontrivial += st_['distinct_nontrivial']
            sample = sample or st_.get('sample')
    seen = set()
    for s in range(shards):
        vp = os.path.join(outdir, 'viol-%d.jsonl' % s)
        if not os.path.exists(vp):
            continue
        with open(vp) as f:
            for line in f:
                rec = json.loads(line)
                if rec['property'] != prop:
                    continue
                key = (rec['clause'], rec['bucket'])
                if key in seen and len(seen) > 50:
                    continue
                seen.add(key)
                case = rec['case']
                out = mod.run(case, ctx)
                out.label('found-by:atheris')
                yield case, out
    info['fuzz'] = {
        'engine': 'atheris (libFuzzer), target tv/fuzz_rex.py',
        'shards': shards, 'runs_per_shard': runs, 'executions': execs,
        'distinct_nontrivial_sum_over_shards': nontrivial,
        'wall_s': round(time.time() - t0, 1),
        'sample_decoded_case': sample,
        'corpus': 'empty; structured decoder (FuzzedDataProvider)',
        'instrumented': ['tdda.rexpy.rexpy'],
    }


def extra(tier, ctx, info, seed_value):
    import sys
    for x in fuzz_campaign('C03', sys.modules[__name__], tier, ctx, info,
                           seed_value):
        yield x
