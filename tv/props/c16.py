"""
C16 -- CSV files described by CSVW metadata load with the declared types and
values; every documented date/time pattern is translated to a parsing format
that reads back exactly the instants written.
"""

import csv
import datetime
import io
import json
import math
import os
import sys

from hypothesis import strategies as st

from tv.core import Outcome, call

ID = 'C16'
BUDGET = {'quick': 4000, 'thorough': 150000}
RULE = ('Tables of 1-5 columns over boolean / integer / number / string / '
        'date / datetime with nulls (empty fields), 0-8 rows. The harness '
        'writes the CSV text itself (csv module, minimal quoting) with '
        'delimiter in {, | tab ;}, encoding in {utf-8, latin-1, utf-16}, '
        'header present or absent (with titles), boolean spellings '
        'true|false, 1|0, Y|N, yes|no, T|F, and date / datetime patterns '
        'composed from d dd M MM yy yyyy HH mm ss S SS SSS in d-M-y / M-d-y / '
        'y-M-d orders with separators - / . space and none, optional time '
        'part joined by space or T; instants are drawn at the precision the '
        'pattern carries and rendered by an independent UAX-35 formatter. '
        'Oracle: csv2pandas returns the declared names, the declared dtypes '
        '(boolean, Int64, float64, string, datetime64) and the written '
        'values, nulls included. Plus an exhaustive sub-campaign over the '
        'pattern grammar: the translated format parses 24 instants per '
        'pattern back exactly. Non-trivial: a date/datetime column with a '
        'non-ISO pattern or a non-default dialect, and >=1 null; distinct '
        'by case hash.')
RULE += ' ' + "Also: time forms with a fraction separated by ':' or ' ' and HH.mm.ss; metadata rewritten in place at the same path after another description was loaded from it; encoding / delimiter declared through dc:replaces beside a dialect section that lacks them; characters U+0080-U+009F; column names differing only in case."
RULE += ' ' + 'Round 6: a third of the cases name only the CSV (findmd=True; the CSV is data.v2.csv and a sibling data.csv with all-string metadata and no rows is the decoy) and a third only the metadata, through a symbolic link beside the CSV whose target lies in another directory beside a decoy data.csv.'
RULE += ' ' + 'Round 7: the format written on the column beside a bare or an object datatype (format_on); a sixth of the tables have a column name that begins or ends with a space.'
RULE += ' ' + "Round 8: titles written as a string, a list or a CSVW language map; for default-dialect files two more call forms: metadata describing two tables (the second one's url 'redata.csv' ends with the CSV's name), the wanted table picked by name (use_table_name=True, wanted table first) or by number (table_number=1, wanted table second)."
ASSUMPTIONS = ['empty strings are not generated (CSV cannot tell them from '
               'null); strings pandas\' default NA list would swallow are '
               'not generated (recorded finding)']

F_HEADERLESS = 'F-csvw-headerless-without-titles'
F_NA_STRINGS = 'F-csvw-default-na-strings'
F_FLOAT = 'F-csvw-float-not-round-trip'

BOOL_SPELLINGS = ['true|false', '1|0', 'Y|N', 'yes|no', 'T|F', 'TRUE|FALSE']
DELIMS = [',', '|', '\t', ';']
ENCODINGS = ['utf-8', 'latin-1', 'utf-16']
NA_LIKE = ['NA', 'N/A', 'null', 'NULL', 'None', 'nan', 'NaN', 'n/a', '#N/A',
           '<NA>', '-nan', '-NaN', '#NA', '1.#IND', '1.#QNAN', '-1.#IND',
           '-1.#QNAN', '#N/A N/A']

DATE_ORDERS = ['dMy', 'Mdy', 'yMd']
TIME_FORMS = ['', 'HH:mm', 'HH:mm:ss', 'HH:mm:ss.S', 'HH:mm:ss.SS',
              'HH:mm:ss.SSS', 'HHmmss', 'HHmm', 'HH:mm:ss:SSS',
              'HH:mm:ss SSS', 'HH.mm.ss']


def date_patterns():
    """The finite pattern grammar, enumerated."""
    out = []
    for order in DATE_ORDERS:
        for sep in ['-', '/', '.', ' ', '']:
            for d in (['dd'] if sep == '' else ['d', 'dd']):
                for m in (['MM'] if sep == '' else ['M', 'MM']):
                    for y in ['yy', 'yyyy']:
                        tok = {'d': d, 'M': m, 'y': y}
                        date = sep.join(tok[ch] for ch in order)
                        out.append(date)
    return out


def datetime_patterns():
    out = []
    for dp in date_patterns():
        for tf in TIME_FORMS:
            if tf == '':
                out.append(dp)
                continue
            for join in [' ', 'T']:
                if join == ' ' and ' ' in dp:
                    continue    # a space-separated date: keep it parseable
                if ('d' in dp.replace('dd', '') or 'M' in dp.replace(
                        'MM', '')) and dp[-1] in 'dM' and tf[0] == 'H' and (
                        join == ''):
                    continue
                out.append(dp + join + tf)
    return out


def render(dt, pattern):
    """Independent UAX-35 rendering of the tokens of the grammar."""
    out = []
    i = 0
    toks = ['yyyy', 'yy', 'dd', 'd', 'MM', 'M', 'HH', 'mm', 'ss', 'SSS', 'SS',
            'S']
    while i < len(pattern):
        for t in toks:
            if pattern.startswith(t, i):
                if t == 'yyyy':
                    out.append('%04d' % dt.year)
                elif t == 'yy':
                    out.append('%02d' % (dt.year % 100))
                elif t == 'dd':
                    out.append('%02d' % dt.day)
                elif t == 'd':
                    out.append('%d' % dt.day)
                elif t == 'MM':
                    out.append('%02d' % dt.month)
                elif t == 'M':
                    out.append('%d' % dt.month)
                elif t == 'HH':
                    out.append('%02d' % dt.hour)
                elif t == 'mm':
                    out.append('%02d' % dt.minute)
                elif t == 'ss':
                    out.append('%02d' % dt.second)
                elif t == 'SSS':
                    out.append('%03d' % (dt.microsecond // 1000))
                elif t == 'SS':
                    out.append('%02d' % (dt.microsecond // 10000))
                elif t == 'S':
                    out.append('%d' % (dt.microsecond // 100000))
                i += len(t)
                break
        else:
            out.append(pattern[i])
            i += 1
    return ''.join(out)


def truncate(dt, pattern):
    """The instant as the pattern can carry it."""
    if 'HH' not in pattern:
        return dt.replace(hour=0, minute=0, second=0, microsecond=0)
    us = 0
    if 'SSS' in pattern:
        us = (dt.microsecond // 1000) * 1000
    elif 'SS' in pattern:
        us = (dt.microsecond // 10000) * 10000
    elif 'S' in pattern:
        us = (dt.microsecond // 100000) * 100000
    sec = dt.second if 'ss' in pattern else 0
    return dt.replace(second=sec, microsecond=us)


def instant_strategy(pattern):
    if 'yyyy' in pattern:
        lo, hi = datetime.datetime(1700, 1, 1), datetime.datetime(2200, 1, 1)
    else:
        lo, hi = (datetime.datetime(1969, 1, 1),
                  datetime.datetime(2068, 12, 31, 23, 59, 59))
    return st.one_of(
        st.datetimes(lo, hi),
        st.sampled_from([datetime.datetime(2000, 2, 29, 23, 59, 59, 999999),
                         datetime.datetime(1999, 12, 31, 0, 0, 0),
                         datetime.datetime(2001, 1, 2, 3, 4, 5, 60000),
                         datetime.datetime(2012, 11, 10, 9, 8, 7, 123456)])
    ).map(lambda d: truncate(d, pattern).isoformat())


STRING_POOL = ['dash\x96here', '\x9fy', 'a', 'B', 'abc', 'x y', 'é', 'ñ ü', 'a,b', 'semi;colon',
               'pipe|d', 'tab\there', 'quote"d', "it's", '12', '1.5', 'true',
               ' lead', 'trail ', 'two  spaces', '#hash', 'new\nline']


@st.composite
def column(draw, i, n, encoding):
    ctype = draw(st.sampled_from(['boolean', 'integer', 'number', 'string',
                                  'date', 'datetime']))
    col = {'name': draw(st.sampled_from(['c%d' % i, 'Col %d' % i, 'é%d' % i
                                         if encoding != 'latin-9' else
                                         'e%d' % i, 'x_%d' % i])),
           'type': ctype}
    if ctype == 'boolean':
        col['format'] = draw(st.sampled_from(BOOL_SPELLINGS + [None]))
        vs = st.booleans()
    elif ctype == 'integer':
        col['base'] = draw(st.sampled_from(['integer', 'long', 'int',
                                            'nonNegativeInteger']))
        vs = st.one_of(st.integers(-1000, 1000), st.integers(-2**62, 2**62),
                       st.sampled_from([0, 1, -1, 2**53 + 1]))
    elif ctype == 'number':
        col['base'] = draw(st.sampled_from(['number', 'double', 'decimal',
                                            'float']))
        vs = st.one_of(st.floats(-1e6, 1e6, allow_nan=False),
                       st.integers(-1000, 1000).map(float),
                       st.sampled_from([0.1, 1e-7, 1.5e300, -0.0, 1 / 3]))
    elif ctype == 'string':
        col['base'] = draw(st.sampled_from(['string', 'token', 'anyURI']))
        vs = st.sampled_from(STRING_POOL + ['NA', 'null', 'None', 'nan',
                                            'N/A'])
    else:
        pats = date_patterns() if ctype == 'date' else datetime_patterns()
        iso = ['yyyy-MM-dd'] if ctype == 'date' else [
            'yyyy-MM-dd HH:mm:ss', 'yyyy-MM-ddTHH:mm:ss',
            'yyyy-MM-dd HH:mm:ss.SSS']
        col['format'] = draw(st.one_of(st.sampled_from(pats),
                                       st.sampled_from(pats),
                                       st.sampled_from(iso), st.none()))
        if ctype == 'datetime':
            col['base'] = draw(st.sampled_from(['datetime', 'dateTime']))
        vs = instant_strategy(col['format'] or iso[0])
    if col.get('format') and draw(st.integers(0, 2)) == 0:
        # where the format is written: inside the datatype object (the
        # usual place), or on the column, beside a bare or an object
        # datatype
        col['format_on'] = draw(st.sampled_from(['column-bare',
                                                 'column-dict']))
    cells = [draw(vs) for _ in range(n)]
    if n and draw(st.integers(0, 2)) != 0:
        for _ in range(draw(st.integers(1, 2))):
            cells[draw(st.integers(0, n - 1))] = None
    col['cells'] = cells
    return col


@st.composite
def case_strategy(draw, tier):
    n = draw(st.sampled_from([0, 1, 2, 3, 3, 4, 5, 8]))
    encoding = draw(st.sampled_from(ENCODINGS))
    ncols = draw(st.integers(1, 5))
    cols = []
    names = set()
    for i in range(ncols):
        c = draw(column(i, n, encoding))
        while c['name'] in names:
            c['name'] += '_'
        names.add(c['name'])
        cols.append(c)
    if len(cols) >= 2 and draw(st.integers(0, 5)) == 0:
        # CSVW names are case-sensitive: two columns may differ only in case
        a, b = draw(st.sampled_from([('ID', 'id'), ('Name', 'name'),
                                     ('é', 'É'), ('x', 'X')]))
        try:
            a.encode(encoding), b.encode(encoding)
            if a not in names and b not in names:
                cols[0]['name'], cols[-1]['name'] = a, b
        except UnicodeEncodeError:
            pass
    if draw(st.integers(0, 5)) == 0:
        # a name that really begins or ends with a space
        c = draw(st.sampled_from(cols))
        nm = draw(st.sampled_from([c['name'] + ' ', ' ' + c['name']]))
        if nm not in names:
            c['name'] = nm
    header = draw(st.sampled_from(['present', 'present', 'present',
                                   'absent-titles', 'absent-no-titles']))
    return {
        'cols': cols, 'n': n,
        'delimiter': draw(st.sampled_from(DELIMS)),
        'encoding': encoding,
        'header': header,
        'titles': draw(st.booleans()),
        # a title as a string, a list, or a CSVW language map
        'titles_form': draw(st.sampled_from(['str', 'str', 'list',
                                             'lang-map', 'lang-map-str'])),
        'md_style': draw(st.sampled_from(MD_STYLES + ['dialect'] * 3)),
        # a history: another description was loaded from the same two paths
        # before the files were rewritten with this one
        'prior': draw(st.sampled_from([None, None, 'delimiter', 'swap-date',
                                       'fewer-cols', 'all-strings'])),
        'avoid_known': draw(st.sampled_from([True] * 9 + [False])),
    }


def strategy(tier):
    return case_strategy(tier).map(steer)


def steer(case):
    case['steered'] = []
    if case.pop('avoid_known'):
        if case['header'] == 'absent-no-titles':
            case['header'] = 'absent-titles'
            case['steered'].append(F_HEADERLESS)
        for c in case['cols']:
            if c['type'] == 'string' and any(v in NA_LIKE
                                             for v in c['cells'] if v):
                c['cells'] = [('x' + v if v in NA_LIKE else v)
                              for v in c['cells']]
                case['steered'].append(F_NA_STRINGS)
            if c['type'] == 'number':
                cells = []
                for v in c['cells']:
                    if v is not None and len(repr(float(v)).replace(
                            '-', '').replace('.', '').replace(
                            'e', '').lstrip('0')) > 14:
                        v = float('%.10g' % v)
                        if F_FLOAT not in case['steered']:
                            case['steered'].append(F_FLOAT)
                    cells.append(v)
                c['cells'] = cells
    return case


def valid(case):
    try:
        if case['delimiter'] not in DELIMS or case['encoding'] not in (
                ENCODINGS) or case['header'] not in (
                'present', 'absent-titles', 'absent-no-titles'):
            return False
        names = [c['name'] for c in case['cols']]
        if not names or len(set(names)) != len(names):
            return False
        for c in case['cols']:
            if len(c['cells']) != case['n'] or not c['name']:
                return False
            t = c['type']
            for v in c['cells']:
                if v is None:
                    continue
                if t == 'boolean' and not isinstance(v, bool):
                    return False
                if t == 'integer' and (isinstance(v, bool)
                                       or not isinstance(v, int)
                                       or abs(v) > 2**62):
                    return False
                if t == 'number' and (isinstance(v, bool) or not isinstance(
                        v, (int, float)) or v != v or abs(v) > 1e308):
                    return False
                if t == 'string' and (not isinstance(v, str) or v == ''
                                      or '\r' in v or '\x00' in v):
                    return False
                if t in ('date', 'datetime'):
                    d = datetime.datetime.fromisoformat(v)
                    if truncate(d, c.get('format') or (
                            'yyyy-MM-dd' if t == 'date' else
                            'yyyy-MM-dd HH:mm:ss.SSS')) != d:
                        return False
                    if not 1700 <= d.year <= 2200:
                        return False
                    if c.get('format') and 'yyyy' not in c['format'] and (
                            not 1969 <= d.year <= 2068):
                        return False
            if t == 'boolean' and c.get('format') not in (
                    BOOL_SPELLINGS + [None]):
                return False
            if t in ('date', 'datetime') and c.get('format') is not None:
                if c['format'] not in ALL_PATTERNS:
                    return False
            if t == 'string':
                for v in c['cells']:
                    if v is not None:
                        v.encode(case['encoding'])
            c['name'].encode(case['encoding'])
        return case.get('prior') in PRIORS and case.get(
            'md_style', 'dialect') in MD_STYLES
    except Exception:
        return False


ALL_PATTERNS = set(date_patterns()) | set(datetime_patterns()) | {
    'yyyy-MM-dd', 'yyyy-MM-dd HH:mm:ss', 'yyyy-MM-ddTHH:mm:ss',
    'yyyy-MM-dd HH:mm:ss.SSS'}


def cell_text(c, v):
    if v is None:
        return ''
    t = c['type']
    if t == 'boolean':
        tr, fa = (c.get('format') or 'true|false').split('|')
        return tr if v else fa
    if t == 'integer':
        return str(v)
    if t == 'number':
        return repr(float(v))
    if t == 'string':
        return v
    d = datetime.datetime.fromisoformat(v)
    fmt = c.get('format')
    if fmt is None:
        fmt = 'yyyy-MM-dd' if t == 'date' else 'yyyy-MM-dd HH:mm:ss'
    return render(d, fmt)


def metadata(case):
    cols = []
    for c in case['cols']:
        t = c['type']
        base = c.get('base') or t
        place = c.get('format_on')
        if t in ('boolean', 'date', 'datetime') and c.get('format') and (
                place is None):
            dt = {'base': base, 'format': c['format']}
        elif c.get('as_dict') or place == 'column-dict':
            dt = {'base': base}
        else:
            dt = base
        col = {'name': c['name'], 'datatype': dt}
        if place and c.get('format'):
            col['format'] = c['format']
        if case['header'] == 'absent-titles' or (
                case['header'] == 'present' and case.get('titles')):
            tf = case.get('titles_form', 'str')
            col['titles'] = (c['name'] if tf == 'str' else [c['name']]
                             if tf == 'list' else {'en': [c['name']]}
                             if tf == 'lang-map' else {'en': c['name']})
        cols.append(col)
    dialect = {'delimiter': case['delimiter'], 'encoding': case['encoding']}
    if case['header'] != 'present':
        dialect['header'] = False
        dialect['headerRowCount'] = 0
    if len(case['cols']) % 2 == 0:
        # the CSVW default, spelt out: only a LINE that begins with the
        # prefix is a comment, not a '#' inside a value
        dialect['commentPrefix'] = '#'
    md = {'@context': 'http://www.w3.org/ns/csvw', 'url': 'data.csv',
          'dialect': dialect, 'tableSchema': {'columns': cols}}
    style = case.get('md_style', 'dialect')
    if style != 'dialect':
        # encoding and/or delimiter declared the other way tdda reads them:
        # a dc:replaces description of the resource; the dialect section
        # then holds only what is left (possibly just the header facts)
        resource = {}
        if style in ('replaces-both', 'replaces-encoding'):
            resource['encoding'] = dialect.pop('encoding')
        if style in ('replaces-both', 'replaces-delimiter'):
            resource['dialect'] = {'csv': {'delimiter':
                                           dialect.pop('delimiter')}}
        md['dc:replaces'] = json.dumps({'resources': [resource]})
        if not dialect:
            del md['dialect']
    return md


MD_STYLES = ['dialect', 'replaces-both', 'replaces-encoding',
             'replaces-delimiter']
PRIORS = [None, 'delimiter', 'swap-date', 'fewer-cols', 'all-strings']


def prior_description(case):
    """A different description of a table at the same paths."""
    import copy
    v = copy.deepcopy(case)
    how = case.get('prior')
    if how == 'delimiter':
        v['delimiter'] = DELIMS[(DELIMS.index(case['delimiter']) + 1)
                                % len(DELIMS)]
    elif how == 'fewer-cols':
        if len(v['cols']) > 1:
            v['cols'] = v['cols'][:-1]
        else:
            v['cols'][0]['name'] += '_old'
    elif how == 'all-strings':
        for c in v['cols']:
            c['type'] = 'string'
            c.pop('format', None)
            c.pop('base', None)
    elif how == 'swap-date':
        for c in v['cols']:
            if c['type'] in ('date', 'datetime') and c.get('format'):
                c['format'] = c['format'].replace('dd', '\0').replace(
                    'MM', 'dd').replace('\0', 'MM')
            elif c['type'] == 'boolean' and c.get('format'):
                c['format'] = '|'.join(reversed(c['format'].split('|')))
    return v


def write_files(case, d, stem='data'):
    buf = io.StringIO()
    w = csv.writer(buf, delimiter=case['delimiter'], lineterminator='\n',
                   quoting=csv.QUOTE_MINIMAL)
    if case['header'] == 'present':
        w.writerow([c['name'] for c in case['cols']])
    for i in range(case['n']):
        row = [cell_text(c, c['cells'][i]) for c in case['cols']]
        if len(row) == 1 and row[0] == '':
            buf.write('""\n')       # a lone empty field would be a blank line
        else:
            w.writerow(row)
    path = os.path.join(d, stem + '.csv')
    with open(path, 'w', encoding=case['encoding'], newline='') as f:
        f.write(buf.getvalue())
    mdpath = os.path.join(d, stem + '-metadata.json')
    md = metadata(case)
    md['url'] = stem + '.csv'
    with open(mdpath, 'w', encoding='utf-8') as f:
        json.dump(md, f, ensure_ascii=False)
    return path, mdpath


def call_form(case):
    """How the files are named to csv2pandas: both paths; the CSV alone,
    the metadata found by the file-name convention (the CSV's name has a
    dot before its extension, and a sibling table with the shorter stem
    has metadata too); or the metadata alone, reached through a symbolic
    link placed beside the CSV (the shared description itself lives in
    another directory, beside another table of that name)."""
    if case.get('prior') or case['header'] == 'absent-no-titles':
        return 'both'
    k = (case['n'] + len(case['cols'])) % 5
    if k >= 3 and (case.get('md_style', 'dialect') != 'dialect'
                   or case['delimiter'] != ',' or case['encoding'] != 'utf-8'
                   or case['header'] != 'present'):
        # (what a dialect inside one of several table descriptions means
        # to tdda is not documented: only default-dialect files)
        return 'both'
    # (multi-name / multi-number: the metadata describes two tables, the
    # one wanted being picked by the CSV's name or by its number)
    return ['both', 'findmd', 'md-link', 'multi-name', 'multi-number'][k]


def write_for_form(case, d, form):
    """Returns (args, kwargs) for csv2pandas and the CSV path."""
    if form == 'both':
        path, mdpath = write_files(case, d)
        return (path, mdpath), {}, path
    decoy = prior_description(dict(case, prior='all-strings'))
    decoy['n'] = 0
    for c in decoy['cols']:
        c['cells'] = []
    if form in ('multi-name', 'multi-number'):
        path, mdpath = write_files(case, d)
        mine = metadata(case)
        other = metadata(decoy)
        other['url'] = 'redata.csv'
        tables = [{k: v for (k, v) in t.items() if k != '@context'}
                  for t in ([mine, other] if form == 'multi-name'
                            else [other, mine])]
        with open(mdpath, 'w', encoding='utf-8') as f:
            json.dump({'@context': 'http://www.w3.org/ns/csvw',
                       'tables': tables}, f, ensure_ascii=False)
        if form == 'multi-name':
            return (path, mdpath), {'use_table_name': True}, path
        return (path, mdpath), {'table_number': 1}, path
    if form == 'findmd':
        write_files(decoy, d, 'data')
        path, mdpath = write_files(case, d, 'data.v2')
        return (path,), {'findmd': True}, path
    shared = os.path.join(d, 'shared')
    site = os.path.join(d, 'site')
    os.makedirs(shared)
    os.makedirs(site)
    write_files(decoy, shared)              # the table beside the target
    with open(os.path.join(shared, 'data-metadata.json'), 'w',
              encoding='utf-8') as f:
        json.dump(metadata(case), f, ensure_ascii=False)
    path, mdpath = write_files(case, site)
    os.remove(mdpath)
    os.symlink(os.path.join('..', 'shared', 'data-metadata.json'), mdpath)
    return (), {'mdpath': mdpath}, path


EXPECTED_DTYPE = {'boolean': ['boolean'], 'integer': ['Int64'],
                  'number': ['float64'], 'string': ['string'],
                  'date': ['datetime64[ns]', 'datetime64[us]',
                           'datetime64[s]', 'datetime64[ms]'],
                  'datetime': ['datetime64[ns]', 'datetime64[us]',
                               'datetime64[s]', 'datetime64[ms]']}


def quiet(fn, *a, **kw):
    so, se = sys.stdout, sys.stderr
    sys.stdout, sys.stderr = io.StringIO(), io.StringIO()
    try:
        return call(fn, *a, **kw)
    finally:
        sys.stdout, sys.stderr = so, se


def run(case, ctx):
    import pandas as pd
    from tdda.serial.reader import csv2pandas
    out = Outcome()
    out.excluded = list(case.get('steered', []))
    d = ctx.fresh_dir()
    if case.get('prior'):
        path, mdpath = write_files(case, d)
        with open(mdpath, 'w', encoding='utf-8') as f:
            json.dump(metadata(prior_description(case)), f,
                      ensure_ascii=False)
        quiet(csv2pandas, path, mdpath)     # whatever it gives
        out.label('history:metadata-rewritten-in-place')
    form = call_form(case)
    cargs, ckw, path = write_for_form(case, d, form)
    out.label('call:' + form)
    out.label('delim:%r' % case['delimiter'], 'enc:' + case['encoding'],
              'header:' + case['header'])
    nondefault = (case['delimiter'] != ',' or case['encoding'] != 'utf-8'
                  or case['header'] != 'present')
    noniso = False
    for c in case['cols']:
        out.label('type:' + c['type'])
        f = c.get('format')
        if c['type'] in ('date', 'datetime') and f and f not in (
                'yyyy-MM-dd', 'yyyy-MM-dd HH:mm:ss', 'yyyy-MM-ddTHH:mm:ss',
                'yyyy-MM-dd HH:mm:ss.SSS'):
            noniso = True
    has_null = any(v is None for c in case['cols'] for v in c['cells'])
    out.nontrivial = has_null and case['n'] > 0 and (nondefault or noniso)
    if noniso:
        out.label('non-iso-date-pattern')
    ok, df = quiet(csv2pandas, *cargs, **ckw)
    if not ok:
        if case['header'] == 'absent-no-titles':
            out.known_hit(F_HEADERLESS, df.detail())
        else:
            out.violate('loads', df.bucket(),
                        'csv2pandas raised %s; metadata %s; csv %r'
                        % (df.detail(), json.dumps(metadata(case),
                                                   ensure_ascii=False)[:400],
                           open(path, encoding=case['encoding']).read()[:200]))
        return out
    names = [c['name'] for c in case['cols']]
    if list(df.columns) != names:
        detail = 'columns %r, declared %r' % (list(df.columns), names)
        if case['header'] == 'absent-no-titles':
            out.known_hit(F_HEADERLESS, detail)
        else:
            out.violate('column-names', 'names', detail)
        return out
    if len(df) != case['n']:
        out.violate('values', 'row-count', '%d rows loaded, %d written; csv '
                    '%r' % (len(df), case['n'],
                            open(path, encoding=case['encoding']).read()[:200]))
        return out
    for c in case['cols']:
        s_ = df[c['name']]
        t = c['type']
        dn = str(s_.dtype)
        if dn not in EXPECTED_DTYPE[t]:
            out.violate('declared-types', '%s:%s' % (t, dn),
                        'column %r declared %s loaded as dtype %s (format '
                        '%r, %d rows, cells %r)'
                        % (c['name'], t, dn, c.get('format'), case['n'],
                           c['cells'][:5]))
            continue
        for i, v in enumerate(c['cells']):
            g = s_.iloc[i]
            if v is None:
                if not pd.isnull(g):
                    out.violate('values', 'null:' + t,
                                'column %r row %d: empty field loaded as %r'
                                % (c['name'], i, g))
                    break
                continue
            if pd.isnull(g) and t == 'string' and v in NA_LIKE:
                out.known_hit(F_NA_STRINGS, 'column %r row %d: the string '
                              '%r loaded as null' % (c['name'], i, v))
                break
            if pd.isnull(g):
                out.violate('values', 'lost:' + t,
                            'column %r row %d: %r (written %r) loaded as '
                            'null' % (c['name'], i, v, cell_text(c, v)))
                break
            if t in ('date', 'datetime'):
                want = pd.Timestamp(v)
                same = (pd.Timestamp(g) == want)
            elif t == 'number':
                same = (float(g) == float(v)) and (
                    math.copysign(1, float(g)) == math.copysign(1, float(v))
                    or float(v) != 0)
            elif t == 'boolean':
                same = (bool(g) == v)
            elif t == 'integer':
                same = (int(g) == v)
            else:
                same = (g == v)
            if not same and t == 'number' and float(v) != 0 and (
                    default_parser_gives(cell_text(c, v), float(g))):
                out.known_hit(F_FLOAT, 'column %r row %d: wrote %r, loaded '
                              '%r' % (c['name'], i, cell_text(c, v), g))
                break
            if not same:
                out.violate('values', 'wrong:' + t + (
                    ':' + ('noniso' if c.get('format') else 'default')
                    if t in ('date', 'datetime') else ''),
                    'column %r row %d: wrote %r as %r (format %r), loaded '
                    '%r' % (c['name'], i, v, cell_text(c, v),
                            c.get('format'), g))
                break
    return out


def default_parser_gives(text, g):
    """Predicate of F-csvw-float-not-round-trip: the value loaded is, bit
    for bit, what pandas' default float parser makes of the text written,
    while the correctly rounded parse (float(), or pandas with
    float_precision='round_trip') gives back the value written.  The error
    of the default parser grows with the number of digits (hundreds of ulp
    for 17 significant digits behind leading zeros)."""
    import pandas as pd
    try:
        fast = pd.read_csv(io.StringIO('x\n%s\n' % text))['x'][0]
        exact = pd.read_csv(io.StringIO('x\n%s\n' % text),
                            float_precision='round_trip')['x'][0]
    except Exception:
        return False
    return (float(fast) == g and float(exact) == float(text)
            and abs(g - float(text)) <= abs(float(text)) * 1e-9)


def extra(tier, ctx, info, seed_value):
    """Exhaustive sub-campaign over the date/time pattern grammar."""
    from tdda.serial.csvw import csvw_date_format_to_md_date_format
    pats = sorted(ALL_PATTERNS)
    instants = []
    for (y, mo, dd, h, mi, se, us) in [
            (2000, 2, 29, 23, 59, 59, 999999), (1999, 12, 31, 0, 0, 0, 0),
            (2001, 1, 2, 3, 4, 5, 60000), (2012, 11, 10, 9, 8, 7, 123456),
            (1969, 1, 1, 0, 0, 0, 0), (2068, 12, 31, 12, 0, 1, 500000),
            (2024, 7, 4, 1, 2, 3, 4000), (1987, 10, 9, 10, 9, 8, 700000),
            (2010, 10, 10, 10, 10, 10, 101010), (2003, 3, 3, 3, 3, 3, 30000),
            (1970, 1, 1, 0, 0, 1, 0), (2038, 1, 19, 3, 14, 7, 999000)]:
        instants.append(datetime.datetime(y, mo, dd, h, mi, se, us))
        instants.append(datetime.datetime(y, 12 if mo == 1 else mo - 1,
                                          min(dd, 28), (h + 13) % 24, mi, se,
                                          us))
    n_ok = 0
    for p in pats:
        out = Outcome()
        out.label('pattern-grammar')
        out.nontrivial = True
        case = {'pattern': p}
        ok, fmt = call(csvw_date_format_to_md_date_format, p)
        if not ok:
            out.violate('pattern-translation', fmt.bucket(), '%r: %s'
                        % (p, fmt.detail()))
            yield case, out
            continue
        bad = None
        for d in instants:
            want = truncate(d, p)
            text = render(want, p)
            try:
                if fmt == 'ISO8601':
                    # a pandas token: its meaning is pandas' ISO parser
                    import pandas as pd
                    got = pd.to_datetime(text,
                                         format='ISO8601').to_pydatetime()
                else:
                    got = datetime.datetime.strptime(text, fmt)
            except Exception as e:     # ValueError, or re.error from an
                # unusable format: either way the text cannot be read back
                bad = (text, 'cannot be parsed with %r: %s: %s'
                       % (fmt, type(e).__name__, e))
                break
            if got != want:
                bad = (text, 'parsed with %r as %s, written %s'
                       % (fmt, got.isoformat(), want.isoformat()))
                break
        if bad:
            out.violate('pattern-translation', 'roundtrip:' + (
                'S' if 'S' in p else 'no-fraction'),
                'pattern %r -> %r: %r %s' % (p, fmt, bad[0], bad[1]))
        else:
            n_ok += 1
        yield case, out
    info['pattern_grammar'] = {'patterns_enumerated': len(pats),
                               'instants_per_pattern': len(instants),
                               'patterns_round_tripping': n_ok,
                               'exhaustive': True}


TECHNIQUE = ('property-based testing (Hypothesis) with a round-trip oracle: '
             'typed values -> harness-written CSV + CSVW JSON -> csv2pandas '
             '-> same names, dtypes, values; plus exhaustive enumeration of '
             'the date/time pattern grammar')
LEVEL_TEXT = ('Generated typed tables are written as CSV by the harness in '
              'generated dialects with generated CSVW metadata and loaded '
              'back through csv2pandas; names, dtypes and every cell are '
              'compared. All patterns of the documented date/time grammar '
              'are enumerated and round-tripped on 24 instants each.')
LEVEL_NOTE = ('Trusted: csv module for writing, the UAX-35 renderer of the harness '
              '(tv.props.c16.render), datetime.strptime as the '
              'meaning of the translated format.')
