"""
C10 -- references are rewritten only on request, and a regenerated reference
passes.  Stateful, model-based: a case is a history of steps run against
one scratch reference directory and a model of the regeneration table.
"""

import argparse
import hashlib
import io
import os
import sys

from hypothesis import strategies as st

from tv.core import Outcome, call
from tv.gen import text as T
from tv.props.c04 import Recorder
from tv.props import c05

ID = 'C10'
BUDGET = {'quick': 3000, 'thorough': 100000}
RULE = ('Histories of 3-10 steps over one reference directory: '
        'set_regeneration(kind, flag) through the API; argv parsing through '
        'ReferenceTestCase\'s flag handling with every accepted spelling '
        '(-W, --W, --write-all, -w/--w/--write kinds as separate or '
        'comma-joined tokens, clusters like -1W, --wquiet, mixed with -v -q '
        '-1 -0 --tagged); the pytest options through referencepytest.'
        'addoption + ref(); assertions of four kinds (string, text file, '
        'binary file, DataFrame saved as parquet) with kind label in {None, '
        'table, graph, csv, zzz}, a target reference that may not exist yet, '
        'and contents incl. CR, CRLF, no final newline, NEL, U+2028, BOM, '
        'arbitrary bytes; re-assertion in normal mode of a result that a '
        'regenerating step wrote. Invariants after every step: the '
        'regeneration table equals the model\'s; if the step\'s kind is not '
        'selected the whole reference directory (names, bytes, mtimes) is '
        'unchanged whatever the outcome; if it is selected the target exists, '
        'the assertion did not fail and only that file changed; a '
        'regenerated reference re-checked in normal mode passes. '
        'Non-trivial: a regenerating assertion followed by a normal-mode '
        'assertion on the same file, or a normal-mode failing assertion on '
        'an existing reference, and >=3 steps; distinct by case hash.')
RULE += ' ' + "Also: kind lists as typed ('table,', 'table, graph', ',table'); in half of the cases every result file and regenerated reference carries one fixed modification time, with contents of equal size; in two cases of three two long-lived test objects (regenerating assertions through one, the others through the other); strings starting with U+FEFF."
RULE += ' ' + 'Round 6: half of the DataFrame assertions pass actual_path naming an existing parquet file that holds every row twice.'
RULE += ' ' + "Round 7: half of the histories name references by bare file name, found through a declared default location and a location of its own for kind 'table'; Latin-1 texts are written as Latin-1 every other time and the assertion told encoding='iso-8859-1'; the list form assertTextFilesCorrect is a fifth kind of assertion."
RULE += ' ' + 'Round 8: frames holding datetime.date objects and byte strings.'
ASSUMPTIONS = ['reference paths are absolute (per-kind data locations are '
               'not exercised)',
               'text is UTF-8; assertTextFilesCorrect in regeneration mode '
               'is not among the four result kinds the statement lists']

KINDS = [None, 'table', 'graph', 'csv', 'zzz', 'parquet']
WHATS = ['string', 'textfile', 'binary', 'frame', 'textfiles']
F_PARQUET = 'F-regen-parquet-dtype-roundtrip'

TEXTS = ['\n\nalpha\n  beta\n', '   \n', 'x\n\n\n', '  lead\ntrail  \n\n',
         '', 'one line\n', 'no final newline', 'a\nb\nc\n', 'crlf\r\nline\r\n',
         'cr only\rnext\r', 'mixed\r\nand\nlines', 'nel\x85inside\n',
         'ls inside\n', '﻿bom first\n', 'trailing blank\n\n',
         'é ü 中文 😀\n', '  padded  \n\ttab\n', 'ff\x0cpage\n', '\n',
         'x' * 300 + '\n',
         # Latin-1 texts (written as such when the assertion names the
         # encoding)
         'caf\xe9 cr\xe8me\n', 'na\xefve \xb1\xbd\nsecond\n', '\xa3 5\n\n']
FRAMES = [
    {'n': 2, 'cols': [{'name': 'i', 'kind': 'int64', 'cells': [1, 2]}]},
    {'n': 2, 'cols': [{'name': 'f', 'kind': 'float64', 'cells': [1.5, None]},
                      {'name': 'b', 'kind': 'bool', 'cells': [True, False]}]},
    {'n': 3, 'cols': [{'name': 's', 'kind': 'string',
                       'cells': ['a', None, 'é']}]},
    {'n': 2, 'cols': [{'name': 'd', 'kind': 'dt64ns',
                       'cells': ['2001-01-01T00:00:00', None]}]},
    {'n': 2, 'cols': [{'name': 'I', 'kind': 'Int64', 'cells': [None, 5]}]},
    {'n': 0, 'cols': [{'name': 'i', 'kind': 'int64', 'cells': []}]},
    {'n': 2, 'cols': [{'name': 'o', 'kind': 'ostr', 'cells': ['x', 'y']}]},
    {'n': 2, 'cols': [{'name': 'p', 'kind': 'pstr', 'cells': ['x', None]}]},
    {'n': 2, 'cols': [{'name': 'c', 'kind': 'cat', 'cells': ['x', 'y']}]},
    # calendar dates held as datetime.date objects
    {'n': 3, 'cols': [{'name': 'day', 'kind': 'odate',
                       'cells': ['2001-01-01', None, '1999-12-31']},
                      {'name': 'i', 'kind': 'int64', 'cells': [1, 2, 3]}]},
    # a column of byte strings (built directly, see content_value)
    {'n': 3, 'raw': 'bytes', 'cols': []},
]
# frames whose dtypes pandas/pyarrow change on a parquet round trip
ROUNDTRIP_CHANGES = {6}


def content_strategy(what):
    if what in ('string', 'textfile', 'textfiles'):
        return st.one_of(
            st.integers(0, len(TEXTS) - 1).map(lambda i: ['t', i]),
            T.a_text(0, 12).map(lambda s: ['s', s.replace('\x00', '')]),
            # different contents of one size
            st.text(alphabet='ab', min_size=5, max_size=5).map(
                lambda s: ['s', s + '\n']),
            # a first character that some readers swallow
            st.sampled_from(['\ufeffid,value\n1,2\n', '\ufeff', ' \ufeffx',
                             '\ufeff\ufeffy\n']).map(lambda s: ['s', s]))
    if what == 'binary':
        return st.one_of(st.binary(max_size=24),
                         st.binary(min_size=4, max_size=4)).map(
            lambda b: ['b', b.hex()])
    return st.integers(0, len(FRAMES) - 1).map(lambda i: ['f', i])


def kinds_tokens():
    k = st.sampled_from(['table', 'graph', 'csv', 'zzz', 'parquet'])
    return st.lists(st.one_of(k, st.tuples(k, k).map(lambda t: ','.join(t))),
                    min_size=1, max_size=3)


@st.composite
def argv_tokens(draw):
    prefix = draw(st.lists(st.sampled_from(['-v', '-q', '-1', '-0',
                                            '--tagged', '-f']),
                           max_size=2, unique=True))
    mode = draw(st.sampled_from(['none', '-W', '--W', '--write-all', '-w',
                                 '--w', '--write', 'cluster', 'quiet']))
    if mode == 'none':
        tail = []
    elif mode in ('-W', '--W', '--write-all'):
        tail = [mode]
        if mode == '-W':
            # single-dash flags are scanned among the leading options only
            prefix = [p for p in prefix if not p.startswith('--')] + [mode] \
                + [p for p in prefix if p.startswith('--')]
            tail = []
    elif mode in ('-w', '--w', '--write'):
        tail = [mode] + draw(kinds_tokens())
    elif mode == 'cluster':
        c = draw(st.sampled_from(['-1W', '-W1', '-vW', '-0W']))
        prefix = [c] + [p for p in prefix if p not in ('-v',)]
        tail = []
    else:
        q = draw(st.sampled_from(['-wquiet', '--wquiet']))
        tail = [q] + draw(st.sampled_from([[], ['--write-all'],
                                           ['--write', 'table']]))
    return prefix + tail


@st.composite
def step(draw):
    op = draw(st.sampled_from(['assert', 'assert', 'assert', 'assert', 'set',
                               'set', 'argv', 'argv', 'pytest', 'recheck',
                               'recheck']))
    if op == 'set':
        return {'op': 'set', 'kind': draw(st.sampled_from(KINDS)),
                'flag': draw(st.sampled_from([True, True, False]))}
    if op == 'argv':
        return {'op': 'argv', 'tokens': draw(argv_tokens())}
    if op == 'pytest':
        return {'op': 'pytest', 'tokens': draw(st.sampled_from([
            [], ['--write-all'], ['--write', 'table'],
            ['--write', 'table', 'graph,csv'], ['--wquiet', '--write-all'],
            ['--tagged'], ['--write', 'zzz,table']]))}
    if op == 'recheck':
        return {'op': 'recheck', 'k': draw(st.integers(0, 5))}
    what = draw(st.sampled_from(WHATS))
    return {'op': 'assert', 'what': what,
            'file': draw(st.integers(0, 1)),
            'kind': draw(st.sampled_from(KINDS)),
            'content': draw(content_strategy(what))}


@st.composite
def kind_words(draw, kinds):
    """The words after -w / --write naming exactly these kinds: separate,
    comma-joined, or the way a list gets typed ("table, graph", a trailing
    or leading comma) - an empty item names no kind."""
    how = draw(st.sampled_from(['separate', 'separate', 'joined', 'joined',
                                'trailing-comma', 'typed-list',
                                'leading-comma']))
    if how == 'joined' and len(kinds) > 1:
        return [','.join(kinds)]
    if how == 'trailing-comma':
        return [','.join(kinds) + ',']
    if how == 'typed-list':
        return [k + ',' for k in kinds[:-1]] + [kinds[-1]]
    if how == 'leading-comma':
        return [',' + kinds[0]] + list(kinds[1:])
    return list(kinds)


@st.composite
def enable_step(draw, kinds):
    """One way of switching regeneration on for the given kinds ([] = all)."""
    how = draw(st.sampled_from(['set', 'argv', 'argv', 'pytest']))
    if how == 'set':
        if not kinds:
            return [{'op': 'set', 'kind': None, 'flag': True}]
        return [{'op': 'set', 'kind': k, 'flag': True} for k in kinds]
    prefix = draw(st.lists(st.sampled_from(['-v', '-q', '-1', '-0', '-f']),
                           max_size=2, unique=True))
    if how == 'argv':
        if not kinds:
            form = draw(st.sampled_from(['-W', '--W', '--write-all', '-1W',
                                         '-vW', '--wquiet']))
            if form in ('-W', '-1W', '-vW'):
                toks = prefix + [form]
            elif form == '--wquiet':
                toks = prefix + ['--wquiet', '--write-all']
            else:
                toks = prefix + draw(st.sampled_from([[], ['--tagged']])) \
                    + [form]
        else:
            w = draw(st.sampled_from(['-w', '--w', '--write']))
            ks = draw(kind_words(kinds))
            toks = prefix + [w] + ks
        return [{'op': 'argv', 'tokens': toks}]
    if not kinds:
        toks = draw(st.sampled_from([['--write-all'],
                                     ['--wquiet', '--write-all']]))
    else:
        ks = draw(kind_words(kinds))
        toks = ['--write'] + ks
    return [{'op': 'pytest', 'tokens': toks}]


@st.composite
def history(draw):
    steps = []
    files = [(draw(st.sampled_from(WHATS)), draw(st.integers(0, 1)))
             for _ in range(draw(st.integers(1, 2)))]

    def an_assert(kinds_pref):
        (what, fi) = draw(st.sampled_from(files))
        kind = draw(st.sampled_from(kinds_pref + kinds_pref + KINDS))
        a = {'op': 'assert', 'what': what, 'file': fi, 'kind': kind,
             'content': draw(content_strategy(what))}
        if what in ('string', 'textfile', 'textfiles') and draw(
                st.integers(0, 2)) == 0:
            a['strip'] = draw(st.sampled_from(['l', 'r', 'lr']))
        if what == 'frame' and draw(st.integers(0, 2)) == 0:
            # the frame carries row labels 10, 20, 30 ... and the assertion
            # selects rows by label
            a['strip'] = 'idx'
        return a
    if draw(st.booleans()):
        steps.append(an_assert(KINDS))       # normal mode, maybe missing ref
    for _ in range(draw(st.integers(1, 3))):
        kinds = draw(st.sampled_from([[], [], ['table'], ['graph'],
                                      ['table', 'graph'], ['csv'],
                                      ['zzz', 'csv']]))
        steps += draw(enable_step(kinds))
        pref = kinds or KINDS
        for _ in range(draw(st.integers(1, 2))):
            steps.append(an_assert(list(pref)))
        off = draw(st.sampled_from(['all', 'all', 'some', 'none']))
        if off != 'none':
            for k in ([None] + [x for x in KINDS if x]) if off == 'all' \
                    else ([None] if not kinds else kinds[:1]):
                steps.append({'op': 'set', 'kind': k, 'flag': False})
        for _ in range(draw(st.integers(1, 3))):
            if draw(st.booleans()):
                steps.append({'op': 'recheck', 'k': draw(st.integers(0, 3))})
            else:
                steps.append(an_assert(list(pref)))
    return {'steps': steps[:24]}


def strategy(tier):
    return st.one_of(history(), history(), history(),
                     st.fixed_dictionaries({
                         'steps': st.lists(step(), min_size=3,
                                           max_size=10)}))


def valid(case):
    try:
        for s in case['steps']:
            op = s['op']
            if op == 'set':
                if s['kind'] not in KINDS or not isinstance(s['flag'], bool):
                    return False
            elif op in ('argv', 'pytest'):
                if not all(isinstance(t, str) for t in s['tokens']):
                    return False
                vocab = (['--write-all', '--write', '--wquiet', '--tagged',
                          '--istagged'] if op == 'pytest' else
                         ['-v', '-q', '-1', '-0', '-f', '--tagged', '-W',
                          '--W', '--write-all', '-w', '--w', '--write',
                          '-1W', '-W1', '-vW', '-0W', '-wquiet', '--wquiet'])
                for t in s['tokens']:
                    if t not in vocab and not (t.strip(',') and all(
                            k in ('table', 'graph', 'csv', 'zzz', 'parquet', '')
                            for k in t.split(','))):
                        return False
                if op == 'argv':
                    parse_argv_model(s['tokens'])
                else:
                    parse_pytest_model(s['tokens'])
            elif op == 'recheck':
                if not isinstance(s['k'], int):
                    return False
            elif op == 'assert':
                if s['what'] not in WHATS or s['kind'] not in KINDS or (
                        s['file'] not in (0, 1)):
                    return False
                if s.get('strip') not in (None, 'l', 'r', 'lr', 'idx') or (
                        s.get('strip') == 'idx') != (
                        s.get('strip') is not None
                        and s['what'] == 'frame'):
                    return False
                c = s['content']
                if s['what'] in ('string', 'textfile', 'textfiles'):
                    if c[0] == 't':
                        TEXTS[c[1]]
                    elif c[0] != 's' or not isinstance(c[1], str) or (
                            '\x00' in c[1]):
                        return False
                elif s['what'] == 'binary':
                    if c[0] != 'b':
                        return False
                    bytes.fromhex(c[1])
                else:
                    if c[0] != 'f':
                        return False
                    FRAMES[c[1]]
            else:
                return False
        return 1 <= len(case['steps']) <= 24
    except Exception:
        return False


# ------------------------------------------------------------------ model

def parse_argv_model(tokens):
    """Returns the kinds switched on by a command line ('ALL' for all)."""
    on = []
    i = 0
    seen_positional = False
    single_zone = True
    for t in tokens:
        if single_zone and t.startswith('-') and not t.startswith('--') and (
                t not in ('-w', '-wquiet')):
            if 'W' in t[1:]:
                on.append('ALL')
        elif not t.startswith('-'):
            single_zone = False
    if '--W' in tokens or '--write-all' in tokens:
        on.append('ALL')
    for w in ('-w', '--w', '--write'):
        if w in tokens:
            rest = tokens[tokens.index(w) + 1:]
            if not rest:
                raise ValueError('write without kinds')
            for r in rest:
                for k in r.split(','):
                    on.append(k)
            break
    return on


def parse_pytest_model(tokens):
    if '--write-all' in tokens:
        return ['ALL']
    on = []
    if '--write' in tokens:
        for r in tokens[tokens.index('--write') + 1:]:
            if r.startswith('--'):
                break
            for k in r.split(','):
                on.append(k)
    return on


def model_should(table, kind):
    if kind in table:
        return table[kind]
    return table.get(None, False)


class ShimParser(object):
    """Just enough of pytest's Parser for referencepytest.addoption."""
    def __init__(self):
        self.ap = argparse.ArgumentParser()

    def addoption(self, *a, **kw):
        self.ap.add_argument(*a, **kw)


class ShimConfig(object):
    def __init__(self, ns):
        self.ns = ns

    def getoption(self, name, default=None):
        return getattr(self.ns, name.lstrip('-').replace('-', '_'), default)


class ShimRequest(object):
    def __init__(self, config):
        self.config = config


def snapshot(d):
    out = {}
    for (root, dirs, files) in os.walk(d):
        for f in sorted(files):
            p = os.path.join(root, f)
            with open(p, 'rb') as fh:
                data = fh.read()
            out[os.path.relpath(p, d)] = (hashlib.sha1(data).hexdigest(),
                                          os.stat(p).st_mtime_ns, len(data))
    return out


def quiet(fn, *a, **kw):
    so, se = sys.stdout, sys.stderr
    sys.stdout, sys.stderr = io.StringIO(), io.StringIO()
    try:
        return call(fn, *a, **kw)
    finally:
        sys.stdout, sys.stderr = so, se


def content_value(what, c):
    if what in ('string', 'textfile', 'textfiles'):
        return TEXTS[c[1]] if c[0] == 't' else c[1]
    if what == 'binary':
        return bytes.fromhex(c[1])
    if FRAMES[c[1]].get('raw') == 'bytes':
        import pandas as pd
        return pd.DataFrame({'b': [b'\x00\x01', b'abc',
                                   'caf\u00e9'.encode('utf-8')],
                             'i': [1, 2, 3]})
    return c05.build(FRAMES[c[1]])


EXT = {'string': 'txt', 'textfile': 'txt', 'textfiles': 'txt',
       'binary': 'bin',
       'frame': 'parquet'}


PINNED = [None]


def pin_mtime(path):
    """In half of the cases every result file and every reference carries
    one fixed modification time (as after `cp -p`, `rsync -t`, extraction
    from an archive, or a build that normalises time stamps): what a file
    holds is then not visible from its size and time stamp."""
    if PINNED[0] and os.path.exists(path):
        os.utime(path, (1600000000, 1600000000))


def do_assert(rt, what, value, ref_path, kind, actdir, n, strip=None,
              latin1=False):
    """Perform the assertion; returns (ok, raised)."""
    kw = {}
    if strip == 'idx':
        import pandas as pd
        value = value.copy()
        value.index = pd.Index([10 * (i + 1) for i in range(len(value))])
        return quiet(rt.assertDataFrameCorrect, value, ref_path, kind=kind,
                     condition=lambda d: (d.index % 20) == 10)
    if strip:
        kw = {'lstrip': 'l' in strip, 'rstrip': 'r' in strip}
    if what == 'string':
        return quiet(rt.assertStringCorrect, value, ref_path, kind=kind,
                     **kw)
    if what in ('textfile', 'textfiles'):
        ap = os.path.join(actdir, 'actual%d.txt' % n)
        with open(ap, 'w', encoding='utf-8', newline='') as f:
            f.write(value)
        pin_mtime(ap)
        if latin1 and not any(ord(ch) > 255 for ch in value):
            # the file is Latin-1 and the assertion says so
            with open(ap, 'w', encoding='iso-8859-1', newline='') as f:
                f.write(value)
            pin_mtime(ap)
            kw['encoding'] = 'iso-8859-1'
        if what == 'textfiles':
            # the list form, with a list of one
            if 'encoding' in kw:
                kw['encodings'] = [kw.pop('encoding')]
            return quiet(rt.assertTextFilesCorrect, [ap], [ref_path],
                         kind=kind, **kw)
        return quiet(rt.assertTextFileCorrect, ap, ref_path, kind=kind,
                     **kw)
    if what == 'binary':
        ap = os.path.join(actdir, 'actual%d.bin' % n)
        with open(ap, 'wb') as f:
            f.write(value)
        pin_mtime(ap)
        return quiet(rt.assertBinaryFileCorrect, ap, ref_path, kind=kind)
    if n % 2 == 0 and len(value):
        # actual_path names the file the frame was loaded from before it
        # was filtered (here: a file holding every row twice); it is "used
        # for error messages" only
        import pandas as pd
        ap = os.path.join(actdir, 'source%d.parquet' % n)
        try:
            pd.concat([value, value]).to_parquet(ap)
            pin_mtime(ap)
            kw['actual_path'] = ap
        except Exception:
            pass
    return quiet(rt.assertDataFrameCorrect, value, ref_path, kind=kind, **kw)


def run(case, ctx):
    PINNED[0] = len(case['steps']) % 2 == 0
    return run_case(case, ctx)


def run_case(case, ctx):
    from tdda.referencetest.referencetest import ReferenceTest
    from tdda.referencetest import referencetestcase as rtc
    from tdda.referencetest import referencepytest as rpt
    out = Outcome()
    d = ctx.fresh_dir()
    refdir = os.path.join(d, 'ref')
    actdir = os.path.join(d, 'act')
    tmpdir = os.path.join(d, 'tmp')
    for x in (refdir, actdir, tmpdir):
        os.makedirs(x)
    ReferenceTest.regenerate = {}
    ReferenceTest.verbose = False
    table = {}
    regenerated = {}        # file name -> (what, content, kind), latest
    saw_regen_then_normal = False
    saw_normal_fail_existing = False
    regen_files = set()
    objects = {}
    # in half of the histories references are named by bare file names and
    # found through declared locations: a default one, and one of its own
    # for the kind 'table'
    locations = len(case['steps']) % 4 in (1, 2)
    if locations:
        os.makedirs(os.path.join(refdir, 'tables'), exist_ok=True)
        out.label('references-by-name-and-location')

    def new_object(rec_):
        rt_ = ReferenceTest(rec_)
        rt_.files.tmp_dir = tmpdir
        rt_.pandas.tmp_dir = tmpdir
        rt_.files.verbose = rt_.pandas.verbose = False
        if locations:
            rt_.set_data_location(refdir)
            rt_.set_data_location(os.path.join(refdir, 'tables'),
                                  kind='table')
        return rt_

    for n, s in enumerate(case['steps']):
        op = s['op']
        tag = 'step %d %s' % (n, op)
        if op == 'set':
            quiet(ReferenceTest.set_regeneration, kind=s['kind'],
                  regenerate=s['flag'])
            table[s['kind']] = s['flag']
        elif op == 'argv':
            ok, r = quiet(rtc._set_flags_from_argv,
                          ['prog'] + list(s['tokens']))
            if not ok:
                out.violate('never-raises', r.bucket(), '%s %r: %s'
                            % (tag, s['tokens'], r.detail()))
                return out
            for k in parse_argv_model(s['tokens']):
                table[None if k == 'ALL' else k] = True
            out.label('argv')
        elif op == 'pytest':
            p = ShimParser()
            rpt.addoption(p)
            se = sys.stderr
            sys.stderr = io.StringIO()
            try:
                ns = p.ap.parse_args(list(s['tokens']))
            except SystemExit:
                ns = None
            finally:
                sys.stderr = se
            if ns is None:
                out.label('pytest-args-rejected')
                continue
            ok, r = quiet(rpt.ref, ShimRequest(ShimConfig(ns)))
            if not ok:
                out.violate('never-raises', r.bucket(), '%s %r: %s'
                            % (tag, s['tokens'], r.detail()))
                return out
            for k in parse_pytest_model(s['tokens']):
                table[None if k == 'ALL' else k] = True
            out.label('pytest-options')
        if op in ('set', 'argv', 'pytest'):
            # compare what the table MEANS (is this kind regenerated?), not
            # how it is stored
            probe = ReferenceTest(Recorder())
            if hasattr(probe, '_should_regenerate'):
                got = {k: bool(probe._should_regenerate(k)) for k in KINDS}
                want = {k: bool(model_should(table, k)) for k in KINDS}
                if got != want:
                    out.violate('regeneration-table', op,
                                '%s %r: kinds regenerated %r, model %r'
                                % (tag, s.get('tokens', (s.get('kind'),
                                                         s.get('flag'))),
                                   got, want))
                    return out
            continue
        # assertions
        if op == 'recheck':
            if not regenerated:
                continue
            fname = sorted(regenerated)[s['k'] % len(regenerated)]
            (what, content, kind, strip, latin1) = regenerated[fname]
            if model_should(table, kind):
                continue
            expect_pass = True
        else:
            what, kind, content = s['what'], s['kind'], s['content']
            strip = s.get('strip')
            # Latin-1 text is, every other time, written as Latin-1 and
            # the assertion told so
            latin1 = (what in ('textfile', 'textfiles') and n % 2 == 1
                      and any(ord(ch) > 127 for ch in content_value(
                          what, content)))
            fname = '%s%d.%s' % (what, s['file'], EXT[what])
            expect_pass = None
        if locations and kind == 'table':
            # (the kind's own location, whatever the default one holds)
            fname = os.path.join('tables', os.path.basename(fname))
        ref_path = os.path.join(refdir, fname)
        ref_arg = os.path.basename(fname) if locations else ref_path
        value = content_value(what, content)
        selected = model_should(table, kind)
        existed = os.path.exists(ref_path)
        before = snapshot(refdir)
        if len(case['steps']) % 3 != 0:
            # two long-lived test objects (as two test classes in one run):
            # assertions that regenerate go through one, the others through
            # the other; what an object has seen of a reference earlier
            # must not outlive the reference being rewritten by another
            who = 'B' if selected else 'A'
            if who not in objects:
                rec_ = Recorder()
                objects[who] = (rec_, new_object(rec_))
            (rec, rt) = objects[who]
            rec.calls = []
        else:
            rec = Recorder()
            rt = new_object(rec)
        ok, r = do_assert(rt, what, value, ref_arg, kind, actdir, n, strip,
                          latin1)
        if selected:
            pin_mtime(ref_path)
        after = snapshot(refdir)
        out.label('%s:%s:%s' % (what, 'regen' if selected else 'normal',
                                'kind=%s' % kind))
        if not selected:
            if after != before:
                new = sorted(set(after) - set(before))
                gone = sorted(set(before) - set(after))
                mod = sorted(f for f in before if f in after
                             and after[f] != before[f])
                out.violate('normal-mode-leaves-references-alone',
                            what + (':raised' if not ok else ''),
                            '%s kind=%r (table %r): reference directory '
                            'changed: new %r removed %r modified %r'
                            % (tag, kind, table, new, gone, mod))
                return out
            if fname in regen_files:
                saw_regen_then_normal = True
            if existed and (rec.failed or not ok):
                saw_normal_fail_existing = True
            if op == 'recheck':
                out.label('recheck')
                if not ok or rec.failed:
                    detail = ('%s: %s %s regenerated earlier with this very '
                              'result now %s in normal mode: %s'
                              % (tag, what, fname,
                                 'raises' if not ok else 'fails',
                                 (r.detail() if not ok else
                                  (rec.calls[-1][1] or '')[:300])))
                    if what == 'frame' and content[1] in ROUNDTRIP_CHANGES:
                        out.known_hit(F_PARQUET, detail)
                    else:
                        out.violate('regenerated-reference-passes',
                                    what + (':raised' if not ok else ''),
                                    detail)
            elif not ok and existed:
                # a normal-mode assertion may fail, but not with an
                # internal error, when the reference exists
                out.label('normal-mode-raised')
        else:
            if not ok:
                out.violate('regeneration-never-raises', r.bucket(),
                            '%s %s kind=%r: %s' % (tag, what, kind,
                                                   r.detail()))
                return out
            if rec.failed:
                out.violate('regeneration-does-not-fail', what,
                            '%s: assertion failed in regeneration mode: %r'
                            % (tag, (rec.calls[-1][1] or '')[:200]))
            if not os.path.exists(ref_path):
                out.violate('regeneration-writes-target', what,
                            '%s: %s not written (table %r, kind %r)'
                            % (tag, fname, table, kind))
                return out
            others_b = {f: v for (f, v) in before.items() if f != fname}
            others_a = {f: v for (f, v) in after.items() if f != fname}
            if others_a != others_b:
                out.violate('regeneration-touches-only-target', what,
                            '%s: other reference files changed: %r -> %r'
                            % (tag, sorted(others_b), sorted(others_a)))
            regenerated[fname] = (what, content, kind, strip, latin1)
            regen_files.add(fname)
    out.nontrivial = len(case['steps']) >= 3 and (saw_regen_then_normal
                                                  or saw_normal_fail_existing)
    return out


TECHNIQUE = ('stateful model-based property testing (Hypothesis-generated '
             'histories interpreted against a model of the regeneration '
             'table, directory snapshots as invariants after every step)')
LEVEL_TEXT = ('Generated histories of option settings (API, every argv '
              'spelling, pytest options) and assertions of four result '
              'kinds; after every step the regeneration table is compared '
              'with the model and the reference directory (names, bytes, '
              'mtimes) with a snapshot, and regenerated references are '
              're-asserted in normal mode.')
LEVEL_NOTE = ('Trusted: the argv model parse_argv_model (about 25 lines), '
              'os.stat mtimes. Reference paths are absolute.')
