"""
C15 -- failed text assertions leave faithful artefacts; passing ones leave
none; nothing is written outside the configured temporary directory.
"""

import hashlib
import os
import re
import tempfile

from hypothesis import strategies as st

from tv.core import Outcome, call
from tv.gen import lines as L
from tv.props import c04

ID = 'C15'
BUDGET = {'quick': 8000, 'thorough': 250000}
RULE = ('C04\'s (reference, actual, options) generator through '
        'assertStringCorrect and assertTextFileCorrect (reference present or '
        'missing), plus pairs of byte strings (equal; differing at offset 0, '
        'in the middle, at the end, beyond 4096 bytes; one a prefix of the '
        'other; empty) through assertBinaryFileCorrect. tmp_dir is a fresh '
        'scratch directory, cwd a canary directory. Oracle: directory '
        'snapshots (names, sizes, hashes) of tmp_dir, reference directory, '
        'cwd and the system temp directory before/after; a passing '
        'assertion changes nothing; a failing one names a diff (or cp) '
        'command whose files exist, the actual file holds the actual '
        'content, the post-processed pair exists when exclusions were in '
        'force and differs exactly on the unexcused pairs computed by the '
        'C04 specification; binary offset and lengths exact; nothing created '
        'outside tmp_dir. Non-trivial: a failing assertion with an exclusion '
        'option in force, or a binary pair differing after offset 0; '
        'distinct by case hash.')
RULE += ' ' + 'Also: assertTextFilesCorrect with a passing first pair (an excused line when an ignore-substring is in force) before the pair under test; a third of the text cases after an earlier, longer failure of the same assertion in the same tmp_dir; in half of the cases tmp_dir is configured with set_defaults before the directory exists.'
RULE += ' ' + 'Round 7: with no reference, the file offered for initialising it must hold the string exactly; in half of the assertTextFilesCorrect cases a third pair, after the pair under test, fails too, its reference sharing the base name (another directory).'
RULE += ' ' + 'Round 8: in a third of the cases regeneration is switched on for every kind and off again for the kind the assertion names.'
ASSUMPTIONS = ['the raw-actual file written for a string actual is compared '
               'line by line; a final newline is not significant (C04)']

ENTRIES = ['assertStringCorrect', 'assertTextFileCorrect',
           'assertTextFilesCorrect']


def bin_pair():
    base = st.binary(min_size=0, max_size=40)
    big = st.integers(4090, 4200).flatmap(
        lambda n: st.tuples(st.just(n), st.integers(0, 255)))

    @st.composite
    def build(draw):
        mode = draw(st.sampled_from(['equal', 'first', 'middle', 'last',
                                     'prefix', 'empty-vs', 'far', 'random']))
        a = draw(base)
        if mode == 'equal':
            return [a.hex(), a.hex()]
        if mode == 'random':
            return [a.hex(), draw(base).hex()]
        if mode == 'empty-vs':
            return ([b''.hex(), a.hex()] if draw(st.booleans())
                    else [a.hex(), b''.hex()])
        if mode == 'prefix':
            k = draw(st.integers(0, len(a)))
            return ([a[:k].hex(), a.hex()] if draw(st.booleans())
                    else [a.hex(), a[:k].hex()])
        if mode == 'far':
            n, byte = draw(big)
            pad = bytes([byte]) * n
            a2 = pad + a + b'\x01'
            b2 = pad + a + b'\x02' + draw(base)
            return [a2.hex(), b2.hex()]
        if not a:
            a = b'\x00'
        i = {'first': 0, 'middle': len(a) // 2, 'last': len(a) - 1}[mode]
        b = bytearray(a)
        b[i] = (b[i] + 1 + draw(st.integers(0, 200))) % 256
        if bytes(b) == a:
            b[i] = (b[i] + 1) % 256
        return [a.hex(), bytes(b).hex()]
    return build()


def strategy(tier):
    text = st.fixed_dictionaries({
        'kind': st.just('text'),
        'main': L.line_case(tier),
        'entry': st.sampled_from(ENTRIES),
        'newline': st.fixed_dictionaries({'ref': st.booleans(),
                                          'act': st.booleans()}),
        'ref_missing': st.sampled_from([False] * 7 + [True]),
        # a history: an earlier, longer failure of the same assertion left
        # its artefacts in the same tmp_dir
        'prior_failure': st.sampled_from([False, False, True]),
    }).map(c04.flatten_plain)
    binary = st.fixed_dictionaries({
        'kind': st.just('binary'),
        'bin': bin_pair(),
        'ref_missing': st.sampled_from([False] * 7 + [True]),
    })
    return st.one_of(text, text, text, binary)


def valid(case):
    if case.get('kind') == 'binary':
        b = case.get('bin')
        try:
            return (isinstance(b, list) and len(b) == 2
                    and all(isinstance(x, str) for x in b)
                    and bytes.fromhex(b[0]) is not None
                    and bytes.fromhex(b[1]) is not None
                    and isinstance(case.get('ref_missing'), bool))
        except ValueError:
            return False
    return (case.get('kind') == 'text'
            and L.valid_lines(case.get('ref')) and L.valid_lines(
                case.get('act'))
            and L.valid_opts(case.get('opts'))
            and case.get('entry') in ENTRIES
            and isinstance(case.get('newline'), dict)
            and set(case['newline']) == {'ref', 'act'}
            and isinstance(case.get('ref_missing'), bool)
            and isinstance(case.get('prior_failure', False), bool))


def snapshot(d):
    out = {}
    if not os.path.isdir(d):
        return out
    for root, dirs, files in os.walk(d):
        for f in files:
            p = os.path.join(root, f)
            try:
                with open(p, 'rb') as fh:
                    data = fh.read()
                out[os.path.relpath(p, d)] = (len(data),
                                              hashlib.sha1(data).hexdigest())
            except OSError:
                out[os.path.relpath(p, d)] = None
        for x in dirs:
            out[os.path.relpath(os.path.join(root, x), d) + '/'] = 'dir'
    return out


CMD_RE = re.compile(r'^\s+(diff|cp|fc|copy)\s+(\S.*)$')


def commands(msg):
    """[(qualifier, cmd, A, B)] from 'Compare [q ]with:' / 'Initialize ...'."""
    out = []
    lines = msg.split('\n')
    for i, ln in enumerate(lines):
        m = re.match(r'^(Compare|Initialize) (.*?)(with|from actual content '
                     r'with):$', ln)
        if m and i + 1 < len(lines):
            m2 = CMD_RE.match(lines[i + 1])
            if m2:
                out.append((m.group(2).strip(), m2.group(1), m2.group(2)))
    return out


def split_two_paths(rest, known_dirs):
    """The command line is 'A B' with absolute paths free of spaces here."""
    parts = rest.split(' ')
    if len(parts) == 2:
        return parts[0], parts[1]
    return None, None


def lines_of_text(content):
    if content == '':
        return []
    parts = content.split('\n')
    if content.endswith('\n'):
        parts = parts[:-1]
    return parts


def run(case, ctx):
    from tdda.referencetest.referencetest import ReferenceTest
    out = Outcome()
    d = ctx.fresh_dir()
    tmp = os.path.join(d, 'tmp')
    refdir = os.path.join(d, 'ref')
    cwd = os.path.join(d, 'cwd')
    actdir = os.path.join(d, 'act')
    for x in (tmp, refdir, cwd, actdir):
        os.makedirs(x)
    with open(os.path.join(cwd, 'canary.txt'), 'w') as f:
        f.write('canary\n')
    os.chdir(cwd)
    # a private "system" temp directory for this case, so that what other
    # processes do in the shared one cannot be mistaken for tdda's doing
    systmp = os.path.join(d, 'systmp')
    os.makedirs(systmp)
    os.environ['TMPDIR'] = systmp
    saved_tempdir = tempfile.tempdir
    tempfile.tempdir = systmp
    from tdda.referencetest.referencetest import ReferenceTest
    ReferenceTest.regenerate = {}
    try:
        return run_in(case, ctx, d, tmp, refdir, cwd, actdir, systmp, out)
    finally:
        tempfile.tempdir = saved_tempdir
        ReferenceTest.regenerate = {}


def run_in(case, ctx, d, tmp, refdir, cwd, actdir, systmp, out):
    from tdda.referencetest.referencetest import ReferenceTest
    rec = c04.Recorder()
    binary = case['kind'] == 'binary'
    if (len(case['bin'][0]) if binary else len(case['ref'])) % 2:
        # the directory is configured (for the class, as a test module does
        # at import) before it exists, and created before the first test
        os.rmdir(tmp)

        class Mine(ReferenceTest):
            pass

        class Other(ReferenceTest):
            pass
        if len(case['act' if not binary else 'bin']) % 2:
            Mine.set_defaults(tmp_dir=tmp)
        else:
            # configured on the base class, with the environment pointing
            # somewhere else: what is configured wins
            ReferenceTest.set_defaults(tmp_dir=tmp)
            os.environ['TDDA_FAIL_DIR'] = os.path.join(d, 'env-fail-dir')
            os.makedirs(os.environ['TDDA_FAIL_DIR'], exist_ok=True)
            out.label('tmp_dir:on-base-class+TDDA_FAIL_DIR')
        # another test class configures a directory of its own afterwards
        other = os.path.join(d, 'other-tmp')
        os.makedirs(other)
        Other.set_defaults(tmp_dir=other)
        rt = Mine(rec)
        os.makedirs(tmp)
        out.label('tmp_dir:set_defaults-before-mkdir')
    else:
        rt = ReferenceTest(rec)
        rt.files.tmp_dir = tmp
    rt.files.verbose = False
    akw = {}
    size = len(case['bin'][1]) if binary else len(case['act'])
    if size % 3 == 0:
        # regeneration was switched on for every kind and then off again
        # for the kind these results are of: they are checked, not written
        ReferenceTest.set_regeneration()
        ReferenceTest.set_regeneration('results', regenerate=False)
        akw = {'kind': 'results'}
        out.label('regeneration-on-for-all-off-for-this-kind')
    ref_path = os.path.join(refdir, 'result.bin' if binary else 'result.txt')
    act_path = os.path.join(actdir, 'result.bin' if binary else 'result.txt')
    if binary:
        rb, ab = bytes.fromhex(case['bin'][0]), bytes.fromhex(case['bin'][1])
        if not case['ref_missing']:
            with open(ref_path, 'wb') as f:
                f.write(rb)
        with open(act_path, 'wb') as f:
            f.write(ab)
        expect_pass = (rb == ab) and not case['ref_missing']
        entry = 'assertBinaryFileCorrect'
    else:
        o = case['opts']
        entry = case['entry']
        ref_text = c04.to_text(case['ref'], case['newline']['ref'])
        act_text = c04.to_text(case['act'], case['newline']['act'])
        lines_ref = L.text_lines(case['ref'], case['newline']['ref'])
        lines_act = L.text_lines(case['act'], case['newline']['act'])
        if not case['ref_missing']:
            with open(ref_path, 'w', encoding='utf-8', newline='') as f:
                f.write(ref_text)
        with open(act_path, 'w', encoding='utf-8', newline='') as f:
            f.write(act_text)
        spec_pass, info = L.spec(lines_ref, lines_act, o)
        expect_pass = spec_pass and not case['ref_missing']
    out.label('entry:' + entry, 'ref-missing' if case['ref_missing']
              else 'ref-present')

    if not binary and entry == 'assertTextFilesCorrect':
        pre_ref = os.path.join(refdir, 'first.txt')
        pre_act = os.path.join(actdir, 'first.txt')
        sub = (o['ignore_substrings'] or [None])[0]
        with open(pre_ref, 'w', encoding='utf-8') as f:
            f.write('first file\nline %s OLD\nend\n' % (sub or 'same'))
        with open(pre_act, 'w', encoding='utf-8') as f:
            f.write('first file\nline %s\nend\n'
                    % ((sub + ' NEW') if sub else 'same OLD'))
    later = None
    if (not binary and entry == 'assertTextFilesCorrect'
            and not case['ref_missing'] and len(case['act']) % 2 == 0):
        # a third pair, after the pair under test, that fails as well; its
        # reference has the SAME base name (in another directory), its
        # actual file another one; exclusions in force apply to it too
        os.makedirs(os.path.join(refdir, 'other'))
        later = (os.path.join(actdir, 'later-run.txt'),
                 os.path.join(refdir, 'other', os.path.basename(ref_path)))
        sub = (o['ignore_substrings'] or [None])[0]
        mark = (o['remove_lines'] or [None])[0]
        with open(later[1], 'w', encoding='utf-8') as f:
            f.write('zqzq 1\nzqzq 2\nzqzq 3\n'
                    + ('line %s OLD\n' % sub if sub else ''))
        with open(later[0], 'w', encoding='utf-8') as f:
            f.write('zqzq 1\n' + ('line %s NEW\n' % sub if sub else '')
                    + ('%s zqzq removable\n' % mark if mark else ''))
    dirs = {'tmp_dir': tmp, 'reference-dir': refdir, 'cwd': cwd,
            'actual-dir': actdir, 'system-temp': systmp}
    if not binary and case.get('prior_failure'):
        # same object, same tmp_dir, same reference name; longer texts
        k = max(len(case['ref']), len(case['act'])) + 6
        old_ref = '\n'.join('OLD REFERENCE LINE %d %s' % (i, 'r' * 30)
                            for i in range(k)) + '\n'
        old_act = '\n'.join('STALE LINE %d %s' % (i, 's' * 30)
                            for i in range(k)) + '\n'
        for (path_, text_) in ((ref_path, old_ref), (act_path, old_act)):
            with open(path_, 'w', encoding='utf-8', newline='') as f:
                f.write(text_)
        if entry == 'assertStringCorrect':
            call(rt.assertStringCorrect, old_act, ref_path,
                 **c04.kwargs_for(o), **akw)
        else:
            call(rt.assertTextFileCorrect, act_path, ref_path,
                 **c04.kwargs_for(o), **akw)
        if rec.failed:
            out.label('after-earlier-longer-failure')
        rec.calls = []
        if case['ref_missing']:
            os.remove(ref_path)
        else:
            with open(ref_path, 'w', encoding='utf-8', newline='') as f:
                f.write(ref_text)
        with open(act_path, 'w', encoding='utf-8', newline='') as f:
            f.write(act_text)
    before = {k: snapshot(v) for (k, v) in dirs.items()}
    if binary:
        ok, r = call(rt.assertBinaryFileCorrect, act_path, ref_path, **akw)
    elif entry == 'assertStringCorrect':
        ok, r = call(rt.assertStringCorrect, act_text, ref_path,
                     **c04.kwargs_for(o), **akw)
    elif entry == 'assertTextFilesCorrect' and not case['ref_missing']:
        # the pair under test comes second; the first pair agrees modulo an
        # excused line (when an ignore-substring is in force), so whatever
        # is reported and written is about the second pair only
        ok, r = call(rt.assertTextFilesCorrect, [pre_act, act_path]
                     + ([later[0]] if later else []),
                     [pre_ref, ref_path] + ([later[1]] if later else []),
                     **c04.kwargs_for(o), **akw)
        if later:
            out.label('a-later-pair-fails-too')
    else:
        ok, r = call(rt.assertTextFileCorrect, act_path, ref_path,
                     **c04.kwargs_for(o), **akw)
    after = {k: snapshot(v) for (k, v) in dirs.items()}
    if not ok:
        out.violate('never-raises', r.bucket(), '%s: %s' % (entry,
                                                            r.detail()))
        return out
    failed = rec.failed
    msg = '\n'.join(m or '' for (okk, m) in rec.calls if not okk)
    out.label('failed' if failed else 'passed')
    # nothing outside tmp_dir, ever
    for k in ('reference-dir', 'cwd', 'actual-dir', 'system-temp'):
        if after[k] != before[k]:
            new = sorted(set(after[k]) - set(before[k]))
            changed = sorted(x for x in before[k] if x in after[k]
                             and after[k][x] != before[k][x])
            gone = sorted(set(before[k]) - set(after[k]))
            out.violate('writes-only-in-tmp_dir', k,
                        '%s: %s changed: new %r, modified %r, removed %r'
                        % (entry, k, new[:5], changed[:5], gone[:5]))
    if not failed:
        if after['tmp_dir'] != before['tmp_dir']:
            out.violate('passing-writes-nothing', 'tmp_dir',
                        '%s passed but tmp_dir now holds %r'
                        % (entry, sorted(after['tmp_dir'])))
        return out
    # ---- failing assertion
    if not binary and (any(o[k] for k in ('ignore_substrings',
                                          'ignore_patterns', 'remove_lines',
                                          'preprocess', 'lstrip', 'rstrip'))):
        out.nontrivial = True
        out.label('failed-with-exclusions')
    cmds = commands(msg)
    if not cmds:
        out.violate('message-names-command', 'none',
                    '%s failed but the message names no comparison command: '
                    '%r' % (entry, msg[:400]))
        return out
    raw = None
    post = None
    about_later = False
    for (q, cmd, rest) in cmds:
        a, b = split_two_paths(rest, dirs)
        if a is None:
            out.violate('message-names-command', 'unparseable',
                        'cannot read two paths from %r' % rest)
            continue
        if q.startswith('post-processed'):
            if not about_later:
                post = (cmd, a, b)
        else:
            # (each pair's plain command comes before its post-processed
            # one; those of the later failing pair are not the ones judged)
            about_later = bool(later) and os.path.realpath(a) == (
                os.path.realpath(later[0]))
            if raw is None and not about_later:
                raw = (cmd, a, b)
        if not os.path.exists(a):
            out.violate('named-files-exist', 'actual:' + (q or 'plain'),
                        '%s: %s names %s, which does not exist'
                        % (entry, cmd, a))
        if cmd in ('diff', 'fc') and not os.path.exists(b):
            out.violate('named-files-exist', 'expected:' + (q or 'plain'),
                        '%s: %s names %s, which does not exist'
                        % (entry, cmd, b))
        for p in (a, b):
            inside = any(os.path.realpath(p).startswith(
                os.path.realpath(x) + os.sep) for x in (tmp, refdir, actdir))
            if not inside:
                out.violate('writes-only-in-tmp_dir', 'named-path',
                            '%s names %s, outside tmp_dir / reference / '
                            'actual directories' % (entry, p))
    if raw is None:
        return out
    (cmd, a, b) = raw
    if case['ref_missing']:
        if cmd not in ('cp', 'copy'):
            out.violate('message-names-command', 'missing-ref-not-cp',
                        'reference missing but command is %r' % cmd)
    # the file given as actual
    if binary or entry in ('assertTextFileCorrect',
                           'assertTextFilesCorrect'):
        if os.path.realpath(a) != os.path.realpath(act_path):
            out.violate('actual-file-faithful', 'not-the-actual-file',
                        '%s: command names %s as actual, the actual file is '
                        '%s' % (entry, a, act_path))
    else:
        if not os.path.realpath(a).startswith(os.path.realpath(tmp) + os.sep):
            out.violate('actual-file-faithful', 'not-in-tmp_dir',
                        'string actual written to %s (tmp_dir is %s)'
                        % (a, tmp))
        elif os.path.exists(a):
            with open(a, encoding='utf-8', newline='') as f:
                content = f.read()
            if case['ref_missing'] and content != act_text:
                # the file the message offers for initialising the
                # reference (cp ...) is the string as it was given
                out.violate('actual-file-faithful', 'missing-ref:not-exact',
                            'no reference: the string checked was %r but '
                            'the file offered as its copy holds %r'
                            % (act_text[-60:], content[-60:]))
            got_lines = lines_of_text(content)
            want_lines = list(lines_act)
            # the file is written without a final newline: trailing blank
            # lines cannot be told apart, so they are not compared
            while got_lines and got_lines[-1] == '':
                got_lines = got_lines[:-1]
            while want_lines and want_lines[-1] == '':
                want_lines = want_lines[:-1]
            if got_lines != want_lines:
                out.violate('actual-file-faithful', 'content',
                            'actual string has lines %r but %s holds %r '
                            '(options %r)'
                            % (lines_act[:8], os.path.basename(a),
                               got_lines[:8],
                               {k: v for (k, v) in o.items() if v}))
    if binary and not case['ref_missing']:
        n = min(len(rb), len(ab))
        off = next((i for i in range(n) if rb[i] != ab[i]), n)
        m = re.search(r'First difference at byte offset (\d+), (.*)\.', msg)
        if off > 0:
            out.nontrivial = True
        if not m:
            out.violate('binary-offset', 'missing',
                        'no offset line in %r' % msg[:300])
        else:
            if int(m.group(1)) != off:
                out.violate('binary-offset', 'offset',
                            'reported offset %s, first differing byte %d '
                            '(lengths %d/%d)' % (m.group(1), off, len(ab),
                                                 len(rb)))
            want = ('both files have length %d' % len(ab)
                    if len(ab) == len(rb) else
                    'actual length %d, expected length %d' % (len(ab),
                                                              len(rb)))
            if m.group(2) != want:
                out.violate('binary-offset', 'lengths',
                            'reported %r, true %r' % (m.group(2), want))
    if binary or case['ref_missing']:
        return out
    # post-processed pair
    exclusions = any(o[k] for k in ('ignore_substrings', 'ignore_patterns',
                                    'remove_lines', 'preprocess'))
    if post is None:
        if not info.get('greedy_would_miss') and exclusions and (
                set(info.get('used', [])) & {'ignore_substrings',
                                             'ignore_patterns'}
                or info['act_removed']
                           or info['ref_removed'] or o['preprocess']):
            out.violate('post-processed-pair', 'missing',
                        '%s failed with exclusions that applied (%r, removed '
                        '%d/%d) but no post-processed pair is named'
                        % (entry, info.get('used'), info['act_removed'],
                           info['ref_removed']))
        return out
    (cmd, pa, pb) = post
    if not (os.path.exists(pa) and os.path.exists(pb)):
        return out
    for p in (pa, pb):
        if not os.path.realpath(p).startswith(os.path.realpath(tmp) + os.sep):
            out.violate('post-processed-pair', 'not-in-tmp_dir', p)
    if info['unexcused'] is None or info.get('greedy_would_miss'):
        out.label('post-processed-not-compared')
        return out
    with open(pa, encoding='utf-8') as f:
        la = f.read().split('\n')
    with open(pb, encoding='utf-8') as f:
        lb = f.read().split('\n')
    norm = L.normalizer(o)
    pre = L.preprocess_fn(o['preprocess'])
    A = pre(list(lines_act)) if pre else list(lines_act)
    E = pre(list(lines_ref)) if pre else list(lines_ref)
    if A and A[-1] == '':
        A = A[:-1]
    if E and E[-1] == '':
        E = E[:-1]
    rl = o['remove_lines'] or []
    a2 = [s for s in A if not any(r in s for r in rl)]
    r2 = [s for s in E if not any(r in s for r in rl)]
    want = [(norm(a2[k]), norm(r2[k])) for k in info['unexcused']]
    if len(la) != len(lb):
        out.violate('post-processed-pair', 'length',
                    'post-processed files have %d and %d lines although the '
                    'texts have equal line counts after removals'
                    % (len(la), len(lb)))
        return out
    got = [(x, y) for (x, y) in zip(la, lb) if x != y]
    if got != want:
        out.violate('post-processed-pair', 'differing-lines',
                    'post-processed files differ on %r; unexcused pairs are '
                    '%r; options %r; ref %r act %r'
                    % (got[:6], want[:6], {k: v for (k, v) in o.items()
                                           if v}, lines_ref[:8],
                       lines_act[:8]))
    return out


TECHNIQUE = ('property-based testing (Hypothesis) with directory-snapshot '
             'invariants before/after each assertion and the C04 '
             'specification as the oracle for the post-processed pair')
LEVEL_TEXT = ('Generated failing and passing (actual, reference, options) '
              'cases and byte-string pairs; the failure message is parsed, '
              'the files it names are opened and compared with the generated '
              'content and with the unexcused pairs computed by the C04 '
              'specification, and four directories are snapshotted before '
              'and after.')
LEVEL_NOTE = ('Trusted: tv/gen/lines.spec, sha1 directory snapshots. The '
              'system temp directory is the per-run scratch TMPDIR.')
