"""
C18 -- coverage figures equal true match counts and account for all examples.
"""

import re
from collections import Counter, OrderedDict

from hypothesis import strategies as st

from tv.core import Outcome, call
from tv.gen import rex as G
from tv.props import c03

ID = 'C18'
BUDGET = {'quick': 16000, 'thorough': 500000}
RULE = ('C03\'s template-built example multisets with repeats (list form with '
        'repeated entries, or frequency dict with counts 1-5), all options, '
        'size None or 0 (where "examples used" and "examples supplied" '
        'coincide), sampling Sizes and 101-4250 constructed distinct '
        'examples (where the figures are about the examples used, each of '
        'which must carry its supplied repeat count). Oracle: coverage(dedup) recomputed with Python '
        're from the kept examples; incremental_coverage(dedup) equal, as an '
        'ordered mapping, to an independent greedy implementation of the '
        'documented rule; values non-increasing and summing to '
        'n_examples(dedup); full_incremental_coverage consistent with both '
        'and index pointing at the right expression; n_examples equals the '
        'number of supplied kept examples (distinct when dedup). Non-trivial: '
        '>=2 expressions and >=1 repeated example; distinct by case hash.')
RULE += ' ' + 'Also: pruning options; byte-string input (utf-8-sig, BOM-prefixed duplicates); wide rows and line breaks; under sampling Sizes and with 101-4250 constructed distinct examples the figures are judged over Extractor.examples, each of which must be a supplied example carrying its supplied repeat count.'
RULE += ' ' + 'Round 6: a third of the list cases under non-sampling sizes supply the examples through a check function (third documented input form).'
RULE += ' ' + 'Round 7: half of the cases first put other read-only questions to the object (pattern_matches, coverage, incremental_coverage).'
RULE += ' ' + 'Round 8: a third of the multi-expression cases remove the last expression through results.remove() and ask for coverage again.'
ASSUMPTIONS = ['under a sampling Size the figures are about "the examples '
               'used by rexpy" (n_examples docstring): the sample plus the '
               'failures added, read from Extractor.examples; each must be a '
               'supplied example carrying its supplied repeat count, and '
               'every figure is then checked over those']


def expand(case):
    """'many': more distinct examples than the first sampling threshold
    (100) but no more than the second (4000), where rexpy still ends up
    using every example; built here, not stored in the case."""
    m = case.get('many')
    if not m:
        return case
    n, stride = m['n'], m['stride']
    base = ['id%d' % i if i % 3 == 0 else '%d-%d' % (i, i % 7) if i % 3 == 1
            else 'Q_%d x' % i for i in range(n)]
    idx = [(j * stride + m.get('shift', 0)) % n for j in range(n)]
    c = dict(case)
    c['examples'] = [base[i] for i in idx]
    c['freqs'] = [1 + (i * m.get('fmul', 1)) % 5 for i in idx]
    c['form'] = 'dict'
    return c


def valid_many(m):
    import math
    return m is None or (isinstance(m, dict) and isinstance(m.get('n'), int)
                         and 4 <= m['n'] <= 5000
                         and isinstance(m.get('stride'), int)
                         and m['stride'] >= 1
                         and math.gcd(m['stride'], m['n']) == 1
                         and isinstance(m.get('shift', 0), int)
                         and isinstance(m.get('fmul', 1), int))


@st.composite
def freq_case(draw, tier):
    if draw(st.integers(0, 11)) == 0:
        n = draw(st.sampled_from([101, 128, 150, 257, 400, 101, 150, 257,
                                  4250]))
        stride = draw(st.sampled_from([s_ for s_ in (1, 3, 7, 11, 37, 59)
                                       if __import__('math').gcd(s_, n)
                                       == 1]))
        return {'examples': ['placeholder'], 'freqs': None,
                'many': {'n': n, 'stride': stride,
                         'shift': draw(st.integers(0, 50)),
                         'fmul': draw(st.sampled_from([1, 2, 3, 0]))},
                'opts': draw(G.opts_strategy(with_pruning=True)),
                # (size 0 = "do not sample", whatever the number of examples)
                'size': draw(st.sampled_from([None, None, 0])),
                'seed': draw(st.sampled_from([None, 1])),
                'form': 'dict', 'avoid_known': True}
    xs = draw(G.examples_strategy(tier, allow_none=True))
    form = draw(st.sampled_from(['list', 'dict', 'dictfreq']))
    freqs = None
    if form == 'dictfreq':
        distinct = []
        for x in xs:
            if x is not None and x not in distinct:
                distinct.append(x)
        xs = distinct
        freqs = [draw(st.sampled_from([0, 1, 1, 2, 3, 5])) for _ in xs]
    return {
        'examples': xs, 'freqs': freqs,
        'opts': draw(G.opts_strategy(with_pruning=True)),
        'size': draw(st.one_of(st.sampled_from([None, None, 0]),
                               st.sampled_from([None, None, 0]),
                               st.sampled_from([None, None, 0]),
                               G.size_strategy())),
        'seed': draw(st.sampled_from([None, 1, 2])),
        'form': 'list' if form == 'list' else 'dict',
        'bytes': draw(st.sampled_from([False, False, True])),
        'avoid_known': draw(st.sampled_from([True] * 6 + [False])),
    }


def strategy(tier):
    return freq_case(tier).map(c03.steer)


def valid(case):
    if not G.valid_size(case.get('size')):
        return False
    if not valid_many(case.get('many')):
        return False
    case = expand(case)
    f = case.get('freqs')
    if f is not None:
        xs = case.get('examples')
        if (not isinstance(xs, list) or len(f) != len(xs)
                or len(set(xs)) != len(xs) or None in xs
                or not all(isinstance(n, int) and 0 <= n <= 9 for n in f)):
            return False
        if case.get('form') != 'dict':
            return False
    c = dict(case)
    return c03.valid(c) and case.get('form', 'list') in ('list', 'dict')


def supplied_and_truth(case):
    """Returns (object handed to rexpy, Counter of kept examples)."""
    o = case['opts']
    xs = case['examples']
    if case.get('freqs') is not None:
        given = OrderedDict((x, n) for (x, n) in zip(xs, case['freqs']))
        pairs = list(given.items())
    else:
        given = G.supplied(case)
        pairs = ([(x, 1) for x in xs] if case.get('form', 'list') == 'list'
                 else list(given.items()))
    truth = Counter()
    order = []
    for (x, n) in pairs:
        if x is None or n == 0:
            continue
        if o.get('strip'):
            x = x.strip()
        if o.get('remove_empties') and x == '':
            continue
        if x not in truth:
            order.append(x)
        truth[x] += n
    return given, truth, order


def greedy(rexes, strings, freqs, dedup):
    """
    Independent implementation of the documented incremental-coverage rule:
    repeatedly take the expression explaining most not-yet-explained examples
    (counting repeats unless dedup), ties broken by the sort order of the
    anchored expressions; zero-gain expressions last, in that sort order.
    Returns list of (expression, n_new, n_new_uniq).
    """
    pats = sorted(set(rexes))
    crs = {p: re.compile(p, G.FLAGS) for p in pats}
    remaining = list(range(len(strings)))
    done = []
    left = list(pats)
    while left:
        best, best_gain = None, 0
        for p in left:
            gain = sum((1 if dedup else freqs[i]) for i in remaining
                       if crs[p].match(strings[i]))
            if gain > best_gain:
                best, best_gain = p, gain
        if best is None:
            break
        hit = [i for i in remaining if crs[best].match(strings[i])]
        done.append((best, sum(freqs[i] for i in hit), len(hit)))
        remaining = [i for i in remaining if i not in set(hit)]
        left.remove(best)
    for p in left:
        done.append((p, 0, 0))
    return done


def run(case, ctx):
    from tdda.rexpy import rexpy
    out = Outcome()
    out.excluded = list(case.get('steered', []))
    if case.get('many'):
        out.label('more-than-100-distinct')
    case = expand(case)
    given, truth, order = supplied_and_truth(case)
    kw = G.extract_kwargs(case)
    if case.get('bytes') and case.get('freqs') is None and case.get(
            'form', 'list') == 'list' and isinstance(given, list) and not any(
                s_ is not None and s_.startswith('\ufeff') for s_ in given):
        # the same list as byte strings (every other one with a leading
        # BOM, which utf-8-sig decodes to nothing: different byte strings,
        # the same example); nulls left out
        try:
            given = [((b'\xef\xbb\xbf' if i % 2 else b'')
                      + s_.encode('utf-8'))
                     for (i, s_) in enumerate(given) if s_ is not None]
            kw['encoding'] = 'utf-8-sig'
            out.label('byte-strings')
        except UnicodeEncodeError:
            pass
    if (isinstance(given, list) and len(given) % 3 == 0 and given
            and not case.get('bytes') and case.get('freqs') is None
            and not isinstance(case.get('size'), dict)):
        # (not under a sampling Size: there the function samples the
        # strings as given, before rexpy has merged those that clean to one)
        # the third documented input form: a check function over the same
        # strings (as given: cleaning them is rexpy's part)
        from tv.props.c14 import check_function_for
        given = check_function_for(given, [])
        out.label('check-function')
    ok, x = call(rexpy.extract, given, as_object=True, **kw)
    if not ok:
        out.violate('never-raises', x.bucket(), x.detail())
        return out
    if not truth:
        out.label('no-kept-examples')
        return out
    rexes = list(x.results.rex) if x.results else []
    strings = order
    freqs = [truth[s] for s in strings]
    sampling = (isinstance(case.get('size'), dict) and any(
        k in case['size'] for k in ('do_all', 'do_all_exceptions'))) or (
        case.get('size') is None and len(strings) > 100)
    if sampling:
        # the figures are about the examples rexpy used (its sample plus the
        # failures it added): each of them is a supplied example and counts
        # as often as it was supplied
        out.label('sampling-size')
        used = list(x.examples.strings)
        ufreq = list(x.examples.freqs)
        if len(set(used)) != len(used) or any(s not in truth for s in used):
            out.violate('examples-used', 'not-a-sub-multiset',
                        'examples used %r, supplied %r' % (used[:20],
                                                           dict(truth)))
            return out
        bad = [(s_, f, truth[s_]) for (s_, f) in zip(used, ufreq)
               if f != truth[s_]]
        if bad:
            out.violate('examples-used', 'frequency',
                        'used examples carry the wrong repeat count '
                        '(string, used as, supplied): %r' % (bad[:6],))
            return out
        if len(used) < len(strings):
            out.label('proper-sample')
        strings = used
        freqs = ufreq
    n_total, n_uniq = sum(freqs), len(strings)
    repeated = any(f > 1 for f in freqs)
    out.nontrivial = len(rexes) >= 2 and repeated
    if repeated:
        out.label('has-repeats')
    if len(rexes) >= 2:
        out.label('multi-expression')
    try:
        crs = [re.compile(r, G.FLAGS) for r in rexes]
    except re.error:
        out.label('invalid-expression(C13)')
        return out
    dialect = case['opts'].get('dialect', 'portable')
    all_matched = all(any(c.match(s) for c in crs) for s in strings)
    if not all_matched:
        out.label('some-example-unmatched(C03)')

    if n_uniq % 2 == 0 and x.results:
        # a history: other read-only questions are put to the object first
        # (which examples each expression matches; the figures, once)
        import io as _io
        import sys as _sys
        so = _sys.stdout
        _sys.stdout = _io.StringIO()
        try:
            call(x.pattern_matches)
            call(x.coverage, True)
            call(x.incremental_coverage, False)
        finally:
            _sys.stdout = so
        out.label('history:queried-before')
    # n_examples
    for dedup in (False, True):
        ok, n = call(x.n_examples, dedup)
        want = n_uniq if dedup else n_total
        if not ok:
            out.violate('never-raises', n.bucket(), n.detail())
        elif n != want:
            out.violate('n_examples', 'dedup=%s' % dedup,
                        'n_examples(%s)=%r, supplied kept examples=%d'
                        % (dedup, n, want))
    # coverage
    for dedup in (False, True):
        ok, cov = call(x.coverage, dedup)
        want = [sum((1 if dedup else f) for (s, f) in zip(strings, freqs)
                    if c.match(s)) for c in crs]
        if not ok:
            out.violate('never-raises', cov.bucket(), cov.detail())
        elif list(cov) != want:
            out.violate('coverage', 'dedup=%s' % dedup,
                        'coverage(%s)=%r, true counts %r for %r over %r'
                        % (dedup, cov, want, rexes, dict(truth)))
    # incremental coverage
    for dedup in (False, True):
        ok, inc = call(x.incremental_coverage, dedup)
        if not ok:
            out.violate('never-raises', inc.bucket(), inc.detail())
            continue
        ref = greedy(rexes, strings, freqs, dedup)
        want = [(p, (u if dedup else n)) for (p, n, u) in ref]
        got = list(inc.items())
        # Expressions that explain nothing new: the statement does not say
        # whether they are listed (the docstring lists them, the code omits
        # them), so only the credited part is compared; a listed zero-gain
        # entry must still be one of the returned expressions.
        zeros = [k for (k, v) in got if v == 0]
        if any(k not in set(rexes) for k in zeros):
            out.violate('incremental', 'unknown-zero-entry', repr(got))
        want = [(k, v) for (k, v) in want if v != 0]
        if [(k, v) for (k, v) in got if v != 0] != want:
            out.violate('incremental', 'dedup=%s' % dedup,
                        'incremental_coverage(%s)=%r, independent greedy %r; '
                        'examples %r' % (dedup, got, want, dict(truth)))
        vals = [v for (_, v) in got]
        if any(a < b for (a, b) in zip(vals, vals[1:])):
            out.violate('incremental-non-increasing', 'dedup=%s' % dedup,
                        'values %r' % (vals,))
        total = n_uniq if dedup else n_total
        if all_matched and sum(vals) != total:
            out.violate('incremental-sums-to-total', 'dedup=%s' % dedup,
                        'sum %d != %d examples; %r' % (sum(vals), total, got))
        ok, full = call(x.full_incremental_coverage, dedup)
        if not ok:
            out.violate('never-raises', full.bucket(), full.detail())
            continue
        fl = list(full.items())
        if [k for (k, _) in fl] != [k for (k, _) in got]:
            out.violate('full-incremental', 'order',
                        'full %r vs incremental %r' % ([k for k, _ in fl],
                                                       got))
        for (k, c) in fl:
            cr = re.compile(k, G.FLAGS)
            n = sum(f for (s, f) in zip(strings, freqs) if cr.match(s))
            u = sum(1 for s in strings if cr.match(s))
            if (c.n, c.n_uniq) != (n, u):
                out.violate('full-incremental', 'n/n_uniq',
                            '%r: n=%r n_uniq=%r, true %d/%d'
                            % (k, c.n, c.n_uniq, n, u))
            if not (0 <= c.index < len(rexes)) or rexes[c.index] != k:
                out.violate('full-incremental', 'index',
                            '%r has index %r in %r' % (k, c.index, rexes))
        refd = {p: (n, u) for (p, n, u) in ref}
        for (k, c) in fl:
            if k in refd and (c.incr, c.incr_uniq) != refd[k]:
                out.violate('full-incremental', 'incr',
                            '%r dedup=%s: incr=%r incr_uniq=%r, greedy %r'
                            % (k, dedup, c.incr, c.incr_uniq, refd[k]))
                break
    if len(rexes) >= 2 and n_uniq % 3 == 0 and not out.violations:
        # a history: the result is changed through its documented remove()
        # (the last expression goes) and the figures are asked for again:
        # they describe the expressions now held
        okr, r_ = call(x.results.remove, {len(rexes) - 1})
        left = list(x.results.rex) if okr else None
        if okr and len(left) == len(rexes) - 1:
            out.label('history:figures-after-results.remove')
            try:
                crs2 = [re.compile(r, G.FLAGS) for r in left]
            except re.error:
                return out
            for dedup in (False, True):
                ok, cov = call(x.coverage, dedup)
                want = [sum((1 if dedup else f) for (s, f) in zip(strings,
                                                                  freqs)
                            if c.match(s)) for c in crs2]
                if ok and list(cov) != want:
                    out.violate('coverage', 'after-remove:dedup=%s' % dedup,
                                'after results.remove(): coverage(%s)=%r, '
                                'true counts %r for %r' % (dedup, cov, want,
                                                           left))
    return out


TECHNIQUE = ('property-based testing (Hypothesis) against a reference model: '
             'match counts recomputed with re and an independent greedy '
             'incremental-coverage implementation')
LEVEL_TEXT = ('Generated-input exploration: example multisets with repeats x '
              'dedup on/off x all extraction options; every reported figure '
              '(coverage, incremental, full incremental, n_examples) is '
              'compared with an independently computed value.')
LEVEL_NOTE = ('Trusted: Python re; my greedy re-implementation of the '
              'documented rule (ties by sort order of the anchored '
              'expressions). Under sampling the figures are judged over '
              'the examples rexpy reports having used.')
