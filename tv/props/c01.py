"""
C01 -- discovered DataFrame constraints are satisfied by the data they came
from (closure), and discovery / verification / detection never raise.
"""

import io
import json
import os
import sys

from hypothesis import strategies as st

from tv.core import Outcome, call
from tv.gen import frames as F
from tv.props import c03

ID = 'C01'
BUDGET = {'quick': 6000, 'thorough': 200000}
RULE = ('G-frame DataFrames of 1-4 columns over 35 dtype kinds (signed / '
        'unsigned / nullable ints, float32/64/Float64 with NaN, +-inf, '
        'subnormals and extremes, bool / boolean / object-bool, object / '
        'categorical / string-dtype strings over the A-text alphabet, naive '
        'datetime64 at s/ms/us/ns, tz-aware datetimes, object date / '
        'datetime), 0-12 rows or 19-26 rows, per-column value pools so that '
        'ties and duplicates are frequent, all-null and all-distinct '
        'columns, awkward field names; x inc_rex x {dict, .tdda file} x '
        '{verify, detect} x repair. Oracle: nothing raises; every verdict '
        'true; failures == 0; detection reports no failing records. '
        'Non-trivial: >=1 row, >=1 non-null cell, >=3 discovered '
        'constraints; distinct by case hash.')
RULE += ' ' + 'Also: index kinds (default, duplicated labels, one label for all rows, strings, reversed); long multi-line cells of more than 99 character-class runs; after use in memory the discovered constraints must still serialise to the same text.'
RULE += ' ' + 'Round 7: the constraints file handed over as a pathlib.Path in file-form cases with an even row count; in odd-length frames the latest and earliest instants of datetime64[ns] columns are given nanosecond digits (not whole microseconds).'
ASSUMPTIONS = ['strings containing NUL are not generated: pandas\' object '
               'hash table conflates them, so unique()/nunique() are wrong '
               'before tdda sees the data']

F_TZ = 'F-constraints-tzaware-bounds'


def strategy(tier):
    return st.fixed_dictionaries({
        'frame': F.frame_strategy(),
        'inc_rex': st.booleans(),
        'via': st.sampled_from(['dict', 'file']),
        'op': st.sampled_from(['verify', 'detect']),
        'repair': st.booleans(),
        # row labels: not data, and not necessarily unique (an un-reset
        # concat) or numeric
        'index': st.sampled_from(['default', 'default', 'default', 'dup',
                                  'strings', 'reversed', 'dup-first',
                                  'multi']),
        'avoid_known': st.sampled_from([True] * 7 + [False]),
        # a constructed column of 20-odd codes or names in which a kind of
        # character first appears in a value that sorts late
        'late': st.sampled_from([None] * 72 + ['codes', 'names', 'punct',
                                               'braces', 'braces2', 'syntax',
                                               'syntax2', 'syntax3']),
    }).map(steer)


LATE = {
    'codes': ['A%02d' % i for i in range(20)] + ['B7X', 'abc'],
    'names': ['Ann', 'Bob', 'Cy', 'Dee', 'Eve', 'Flo', 'Gus', 'Hal', 'Ida',
              'Jo', 'Kim', 'Lee', 'Max', 'Ned', 'Ola', 'Pam', 'Quin', 'Ray',
              'Sue', 'Tom', 'Zo\u00eb', '\u00c9mile'],
    'punct': ['k-%02d' % i for i in range(20)] + ['k_21', 'z.22'],
    # constant literal text that looks like regular-expression syntax
    'braces': ['x^{2}', 'y^{2}', 'z^{2}'],
    'braces2': ['v{2}', 'w{2}', 'v{2}'],
    'syntax': ['a(1)', 'b(1)', 'c(1)'],
    'syntax2': ['k[0]+', 'm[0]+'],
    'syntax3': ['p.*?', 'q.*?', 'r.*?'],
}


def set_index(df, kind):
    import pandas as pd
    n = len(df)
    if kind == 'dup':
        df.index = pd.Index([i // 2 for i in range(n)])
    elif kind == 'dup-first':
        df.index = pd.Index([0] * n)
    elif kind == 'strings':
        df.index = pd.Index(['r%d' % (i % 3) for i in range(n)])
    elif kind == 'reversed':
        df.index = pd.RangeIndex(n - 1, -1, -1)
    elif kind == 'multi':
        df.index = pd.MultiIndex.from_arrays(
            [[i // 2 for i in range(n)], [i % 2 for i in range(n)]],
            names=['g', None])
    return df


def steer(case):
    steered = []
    late = case.get('late')
    if late:
        vals = list(LATE[late])
        case['frame'] = {'n': len(vals), 'cols': [
            {'name': 'code', 'kind': 'ostr', 'cells': vals},
            {'name': 'i', 'kind': 'int64', 'cells': list(range(len(vals)))}]}
        case['inc_rex'] = True
    if case['frame']['n'] % 2 == 1:
        # nanosecond-resolution columns whose latest and earliest instants
        # are not whole microseconds
        for c in case['frame']['cols']:
            nn = [v for v in c['cells'] if v is not None]
            if c['kind'] == 'dt64ns' and nn:
                def key(v):
                    return F.parse_dt(v)
                hi, lo = max(nn, key=key), min(nn, key=key)

                def ns(v, digits):
                    return (v if '.' in v else v + '.000000') + digits
                c['cells'] = [ns(v, '789') if v == hi and len(v) <= 26
                              else ns(v, '001') if v == lo and len(v) <= 26
                              else v for v in c['cells']]
    if case.pop('avoid_known'):
        for c in case['frame']['cols']:
            if c['kind'] in F.TZ_KINDS:
                c['kind'] = 'dt64ns'
                steered.append(F_TZ)
    case['steered'] = steered
    return case


def valid(case):
    return (F.valid_frame(case.get('frame', {}))
            and case.get('via') in ('dict', 'file')
            and case.get('op') in ('verify', 'detect')
            and isinstance(case.get('inc_rex'), bool)
            and isinstance(case.get('repair'), bool)
            and case.get('index', 'default') in (
                'default', 'dup', 'strings', 'reversed', 'dup-first',
                'multi'))


def quiet(fn, *a, **kw):
    """Run fn with stdout/stderr captured (tdda prints warnings)."""
    so, se = sys.stdout, sys.stderr
    sys.stdout, sys.stderr = io.StringIO(), io.StringIO()
    try:
        return call(fn, *a, **kw)
    finally:
        sys.stdout, sys.stderr = so, se


def known_for(case, col_kinds):
    """Predicates of the recorded findings, evaluated on the case."""
    ks = []
    if any(k in F.TZ_KINDS for k in col_kinds):
        ks.append(F_TZ)
    return ks


def run(case, ctx):
    from tdda.constraints import discover_df, verify_df, detect_df
    out = Outcome()
    out.excluded = list(case.get('steered', []))
    desc = case['frame']
    df = set_index(F.build_frame(desc), case.get('index', 'default'))
    if case.get('index', 'default') != 'default':
        out.label('index:' + case['index'])
    kinds = [c['kind'] for c in desc['cols']]
    for k in sorted(set(kinds)):
        out.label('kind:' + k)
    out.label('rows:%s' % ('0' if desc['n'] == 0 else '1' if desc['n'] == 1
                           else '2-12' if desc['n'] <= 12 else '19-26'))
    out.label('rex' if case['inc_rex'] else 'norex', case['via'], case['op'],
              'repair' if case['repair'] else 'norepair')

    ok, cons = quiet(discover_df, df.copy(), inc_rex=case['inc_rex'])
    if not ok:
        out.violate('discovery-never-raises', cons.bucket(), cons.detail())
        return out
    if cons is None:
        out.label('nothing-discovered')
        return out
    ok, d = quiet(cons.to_dict)
    if not ok:
        out.violate('discovery-never-raises', d.bucket(), d.detail())
        return out
    nconstraints = sum(len(v) for v in d['fields'].values())
    nonnull = sum(1 for c in desc['cols'] for v in c['cells']
                  if v is not None)
    out.nontrivial = desc['n'] >= 1 and nonnull >= 1 and nconstraints >= 3

    ok0, text0 = quiet(cons.to_json)
    if case['via'] == 'file':
        ok, text = quiet(cons.to_json)
        if not ok:
            out.violate('serialisation-never-raises', text.bucket(),
                        text.detail())
            return out
        path = os.path.join(ctx.fresh_dir(), 'c.tdda')
        with open(path, 'w', encoding='utf-8') as f:
            f.write(text)
        handed = path
        if desc['n'] % 2 == 0:
            import pathlib
            handed = pathlib.Path(path)     # any os.PathLike names a file
            out.label('path-object')
    else:
        handed = d

    fn = verify_df if case['op'] == 'verify' else detect_df
    ok, v = quiet(fn, df.copy(), handed, repair=case['repair'])
    known = known_for(case, kinds)
    if not ok:
        out.violate('verification-never-raises', v.bucket(), v.detail())
        return out
    # every discovered field and constraint must be among the verdicts
    unreported = [(f, k) for (f, fc) in d['fields'].items() for k in fc
                  if k not in dict(v.fields.get(f, {}).items())]
    if unreported:
        out.violate('closure', 'not-reported',
                    'discovered but not reported by verification: %r'
                    % (unreported[:6],))
    failed = [(f, k) for (f, fr) in v.fields.items()
              for (k, val) in fr.items() if not val]
    if failed or v.failures != 0:
        by_kind = {c['name']: c['kind'] for c in desc['cols']}
        for (f, k) in failed or [('?', '?')]:
            ck = by_kind.get(f, '?')
            col = next((c for c in desc['cols'] if c['name'] == f), None)
            detail = ('%s constraint on field %r (%s) fails on its own data;'
                      ' discovered %s' % (k, f, ck,
                                          json.dumps(d['fields'].get(f),
                                                     default=str,
                                                     ensure_ascii=False)
                                          [:300]))
            if ck in F.TZ_KINDS and k in ('min', 'max'):
                out.known_hit(F_TZ, detail)
            else:
                out.violate('closure', '%s:%s' % (F.tdda_type(ck)
                                                  if ck != '?' else '?', k),
                            detail)
    if case['op'] == 'detect':
        det = v.detection
        if det is not None and det.n_failing_records != 0 and not failed:
            out.violate('detect-no-failing-records', 'n_failing_records',
                        'n_failing_records=%r' % det.n_failing_records)
        ok, got = quiet(v.detected)
        if not ok:
            out.violate('verification-never-raises', got.bucket(),
                        got.detail())
        elif got is not None and len(got) != 0 and not failed:
            out.violate('detect-no-failing-records', 'detected-frame',
                        'detected() has %d rows' % len(got))
    # using the discovered constraints in memory leaves them as discovered:
    # they can still be written to a .tdda file, with the same text
    ok1, text1 = quiet(cons.to_json)
    if ok0 and not ok1:
        out.violate('serialisation-never-raises', 'after-use:' + text1.bucket(),
                    'to_json() after the constraints were used in memory: '
                    + text1.detail())
    elif ok0 and ok1 and text0 != text1:
        out.violate('constraints-unchanged-by-use', 'text',
                    'to_json() before use %r..., after %r...'
                    % (text0[:200], text1[:200]))
    return out


TECHNIQUE = ('property-based testing (Hypothesis, dtype-enumerating frame '
             'generator) with a closure oracle: discover -> (dict | .tdda '
             'file) -> verify / detect on the same frame')
LEVEL_TEXT = ('Generated-input exploration over every recognised dtype class '
              'x rex x dict/file x verify/detect x repair; oracle is closure '
              'under the library\'s own verifier plus "never raises".')
LEVEL_NOTE = ('Trusted: pandas construction of the frames, Hypothesis. '
              'Recorded defects are recognised by predicate (tz-aware '
              'bounds, non-ASCII decimal '
              'digits in discovered expressions) and steered around in 7/8 '
              'of the cases so the search continues past them.')
