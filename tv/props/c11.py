"""
C11 -- gentest: for a repeatable command the generated test exists, compiles
and passes; generation leaves pre-existing files alone.
"""

import os

from hypothesis import strategies as st

from tv.core import Outcome
from tv.gen import gentestcmd as G

ID = 'C11'
BUDGET = {'quick': 240, 'thorough': 5000}
TIME_LIMIT = {'quick': 900, 'thorough': 7200}
SHRINK_BUDGET = {'quick': 25, 'thorough': 200}
RULE = ('Deterministic commands `sh ./cmd.sh` that cat fixed payloads to '
        'stdout / stderr, copy 0-3 fixed payloads to output files (utf-8 '
        'text or binary; named explicitly, by directory, by glob, or not at '
        'all) and exit 0-3; text built from plain words plus special tokens '
        '(impossible and possible date-like, time-like, version-like, path '
        'of cwd / home / tmpdir, user and host names, quotes, triple quotes, '
        'backslashes, %, regex metacharacters, today\'s date); x -n 1/2/3, '
        '--no-stdout, --no-stderr, --non-zero-exit, relative / absolute '
        'script name, bystander files and an older test + ref directory in '
        'the working directory. Each case is two subprocesses (`python -m '
        'tdda.constraints.console gentest ...`, then the generated script). '
        'Oracle: generation exits 0; test_x.py exists and compiles; ref/x/ '
        'holds STDOUT / STDERR as configured and one reference per output '
        'file, no numbered sub-directories; the script exits 0; hashes of '
        'bystander files and of the command\'s own output files are '
        'unchanged. Non-trivial: non-empty stdout or >=1 output file, and '
        '>=1 special token; distinct by case hash.')
RULE += ' ' + 'Also: output directories beside the working directory whose name extends it (absolute and ../ relative); a fifth of text outputs with 201 / 230 / 1100 ASCII lines before the drawn ones (half of those cases -n 1); valid UTF-8 that encoding sniffers take for HZ / UTF-7; bystander files older than their status change; one base name in two directories (ASCII in one, accents in the other); names differing only in non-identifier characters; block-sized binary outputs.'
RULE += ' ' + 'Round 6: an earlier test in the directory named test__x.py (references in ref/_x) or test_xy.py must still pass afterwards and its files and reference directory are part of the before/after snapshot (only test_x.py and ref/x are exempt); output names that are glob patterns (log[0].txt beside a bystander log0.txt); outputs that already exist and are rewritten by `cp -p` from a source with an OLD modification time.'
RULE += ' ' + "Round 7: exit 'statuses' -9 / -15 (the command's own shell dies by that signal); output modes tmpdir and tmpdir_sub (files under $TMPDIR, named on stdout when gentest runs the command at least twice); a third of the cases run on a machine whose own host name does not resolve (sitecustomize shim)."
RULE += ' ' + "Round 8: month names as people abbreviate them (Sept, Sep., June); a path under the home directory; a home directory whose path holds the user's name; the scratch area named on stdout without files in it (two or more iterations)."
ASSUMPTIONS = ['host name, user name and today\'s date are captured once per '
               'run and recorded in the evidence (gentest reads them)',
               'output files are UTF-8 text or binary']

F_DATELIKE = 'F-gentest-impossible-date-crash'


def strategy(tier):
    return G.command_case(tier)


def valid(case):
    return G.valid_case(case)


def has_special(case):
    texts = list(case['stdout']) + list(case['stderr'])
    for f in case['files']:
        if f['kind'] == 'text':
            texts += f['lines']
    return any(any(tok in ln for tok in G.SPECIAL) for ln in texts)


def run(case, ctx):
    out = Outcome()
    root = ctx.fresh_dir()
    wd = G.Workdir(case, root, ctx.env)
    out.label('how:' + case['how'], 'n:%d' % case['n'],
              'exit:%d' % case['exit'], 'files:%d' % len(case['files']))
    if case['no_stdout']:
        out.label('--no-stdout')
    if case['no_stderr']:
        out.label('--no-stderr')
    out.nontrivial = (bool(case['stdout']) or bool(case['files'])) and (
        has_special(case))
    wd.generate_neighbour()
    before = wd.snapshot(exclude=('test_x.py', os.path.join('ref', 'x')))
    r = wd.generate()
    if r.returncode != 0:
        tail = (r.stderr or r.stdout)[-600:]
        last = tail.strip().split('\n')[-1] if tail.strip() else ''
        m = __import__('re').search(r'File ".*?tdda/(\S+)", line (\d+), in '
                                    r'(\w+)\s*\n[^\n]*\n(\w+)', r.stderr
                                    or '')
        frames = __import__('re').findall(
            r'File ".*?/tdda/(\S+?)", line \d+, in (\w+)', r.stderr or '')
        where = '%s:%s' % frames[-1] if frames else 'no-traceback'
        etype = last.split(':')[0][:40]
        out.violate('generation-completes', '%s@%s' % (etype, where),
                    'gentest exited %d: %s' % (r.returncode, tail[-400:]))
        return out
    script = os.path.join(wd.w, 'test_x.py')
    if not os.path.exists(script):
        out.violate('script-exists', 'missing', 'no test_x.py after '
                    'generation; output %r' % r.stdout[-300:])
        return out
    try:
        with open(script, encoding='utf-8') as f:
            compile(f.read(), script, 'exec')
    except SyntaxError as e:
        out.violate('script-compiles', 'SyntaxError',
                    '%s (line %s): %r' % (e.msg, e.lineno, e.text))
        return out
    refdir = os.path.join(wd.w, 'ref', 'x')
    entries = sorted(os.listdir(refdir)) if os.path.isdir(refdir) else []
    if any(os.path.isdir(os.path.join(refdir, e)) for e in entries):
        out.violate('reference-files', 'numbered-subdirs',
                    'ref/x still holds directories: %r' % entries)
    for (name, wanted) in (('STDOUT', not case['no_stdout']),
                           ('STDERR', not case['no_stderr'])):
        if (name in entries) != wanted and not any(
                f['name'] == name for f in case['files']):
            out.violate('reference-files', name,
                        '%s %s in ref/x (%r)' % (name, 'missing' if wanted
                                                 else 'present', entries))
    nref = len([e for e in entries if e not in ('STDOUT', 'STDERR')])
    if nref < len(case['files']) and case['how'] != 'default':
        out.violate('reference-files', 'count',
                    '%d output files, %d references: %r'
                    % (len(case['files']), nref, entries))
    if 'STALE' in entries:
        out.violate('reference-files', 'stale-kept',
                    'a reference from an earlier version of the test is '
                    'still in ref/x')
    r2 = wd.run_script()
    if r2.returncode != 0:
        out.violate('generated-test-passes', ','.join(G.failing_tests(r2))
                    or 'exit-%d' % r2.returncode,
                    'generated script exits %d: %s'
                    % (r2.returncode, (r2.stderr or r2.stdout)[-700:]))
    if wd.neighbour_script():
        out.label('history:earlier-test-' + wd.neighbour_script())
        r3 = wd.run_neighbour()
        if r3.returncode != 0:
            out.violate('pre-existing-files-untouched', 'earlier-test-fails',
                        'the test generated earlier in this directory (%s) '
                        'no longer passes: %s'
                        % (wd.neighbour_script(),
                           (r3.stderr or r3.stdout)[-500:]))
    after = wd.snapshot(exclude=('test_x.py', os.path.join('ref', 'x')))
    outs = ({} if case['how'] in G.TMPDIR_HOWS else
            {wd.out_name(f): f for f in case['files']})
    if wd.preexisting:
        out.label('history:outputs-exist-and-are-rewritten-with-old-mtime')
    for (rel, h) in before.items():
        if rel in outs:
            continue        # (rewritten by the command itself; see below)
        if rel not in after:
            out.violate('pre-existing-files-untouched', 'removed',
                        '%s was removed' % rel)
        elif after[rel] != h:
            out.violate('pre-existing-files-untouched', 'modified',
                        '%s was modified' % rel)
    for (rel, f) in outs.items():
        p = os.path.join(wd.w, rel)
        if not os.path.exists(p):
            out.violate('command-outputs-untouched', 'removed',
                        'output file %s is gone after generation + test run'
                        % rel)
        else:
            with open(p, 'rb') as fh:
                got = fh.read()
            with open(wd.payload_path('f%d' % case['files'].index(f)),
                      'rb') as fh:
                want = fh.read()
            if got != want:
                out.violate('command-outputs-untouched', 'modified',
                            'output file %s was altered' % rel)
    return out


TECHNIQUE = ('property-based testing (Hypothesis) of a subprocess pipeline '
             'with a validity oracle: generation succeeds, the script '
             'compiles and passes, file hashes before/after')
LEVEL_TEXT = ('Generated deterministic commands with special-token text; '
              'gentest is run as a real subprocess, the generated script is '
              'compiled and run, and the working directory is snapshotted '
              'before and after.')
LEVEL_NOTE = ('Hundreds of cases per run (each is two Python subprocesses); '
              'token classes are injected by construction. Depends on host '
              'name, user name (set to a fixed scratch value) and today\'s '
              'date, recorded in the evidence.')
