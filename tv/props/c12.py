"""
C12 -- gentest: the generated test fails when the command behaves
differently, and the failure is reported by the test for that stream, file
or status; it keeps passing when nothing has changed.
"""

import os

from hypothesis import strategies as st

from tv.core import Outcome
from tv.gen import gentestcmd as G

ID = 'C12'
BUDGET = {'quick': 200, 'thorough': 4000}
TIME_LIMIT = {'quick': 900, 'thorough': 7200}
SHRINK_BUDGET = {'quick': 20, 'thorough': 150}
RULE = ('Every C11 command that generates and passes, followed by up to 4 '
        '(quick) / 6 (thorough) independent single mutations of what the '
        'command does, each applied to fresh payloads and undone afterwards: '
        'substitute / insert / delete one character, insert one '
        'non-ASCII character, append a trailing space, add or remove one line of stdout, stderr or a text output '
        'file; flip / insert / delete one byte of a binary output file; stop '
        'producing one output file; change the exit status. Mutated lines '
        'contain none of the machine- or time-specific tokens (host, user, '
        'cwd, home, tmpdir, IP, today\'s date), which gentest excludes by '
        'design. Oracle: the generated script exits non-zero and its report '
        'names a failure or error in the test for the mutated object '
        '(test_stdout, test_stderr, test_<file>, test_exit_code); with the '
        'payloads restored it passes again. Non-trivial: >=1 mutation '
        'applied to a stream or file; distinct by case hash.')
RULE += ' ' + 'Also: insertion of one non-ASCII character; append / truncate of one byte at the end of 4096-65536-byte binary files; a mutation aimed at each of two files whose names differ only in non-identifier characters; a generated test that fails with nothing changed is a violation of this property too.'
RULE += ' ' + "Round 6: a stamp of today's date with a two-digit year in an otherwise checked line; outputs that already exist and are rewritten with an older modification time than they had."
RULE += ' ' + 'Round 7: as C11 (signal deaths, $TMPDIR outputs, unresolvable host name); exit-status mutations between signals.'
RULE += ' ' + "Round 8: mutation ins_bom (a byte-order mark appears at the start of a non-ASCII text file); one case in ten is built around a stdout line whose only machine-specific part is a path under a home directory holding the user's name, with a changed digit in it (home_digit)."
ASSUMPTIONS = ['edits that only touch the final newline or a trailing blank '
               'line are not produced (C04 documents that tolerance)']

OPS = ['sub', 'ins', 'del', 'trail', 'addline', 'delline', 'ins_na',
       'ins_token', 'home_digit', 'ins_bom']


@st.composite
def mutation(draw):
    return {'target': draw(st.sampled_from(['stdout', 'stdout', 'stderr',
                                            'file', 'file', 'file',
                                            'missing', 'exit'])),
            'op': draw(st.sampled_from(OPS)),
            'i': draw(st.integers(0, 7)), 'j': draw(st.integers(0, 30)),
            'k': draw(st.integers(0, 3))}


def aim(case):
    """Mutations aimed at what the command's outputs make possible: a byte
    more / less at the end of a block-sized binary file, one character in
    each of two files whose test names coincide before qualification."""
    files = case['cmd']['files']
    for (k, f) in enumerate(files):
        if f['kind'] == 'binary' and f.get('pad_to'):
            case['mutations'].append({'target': 'file', 'i': 0, 'j': 0,
                                      'k': k, 'op': 'addline' if len(
                                          f['hex']) % 4 else 'delline'})
        if f['kind'] == 'text' and f['name'] in ('stdout', 'stderr',
                                                 'exit.code',
                                                 'no exception'):
            # ... and a change of the stream / status of that name
            case['mutations'].append(
                {'target': {'stdout': 'stdout', 'stderr': 'stderr'}.get(
                    f['name'], 'exit'), 'op': 'ins', 'i': 0, 'j': 1, 'k': 0})
        if f['kind'] == 'text' and any('cache at {HOME}' in ln
                                       for ln in f.get('lines', [])):
            case['mutations'].append({'target': 'file', 'op': 'home_digit',
                                      'i': 0, 'j': 0, 'k': k})
        if f['kind'] == 'text' and any(ord(ch) > 127 for ln in f.get(
                'lines', []) for ch in ln) and not (f.get('lines') or [''])[
                    0].startswith('\ufeff'):
            # a byte-order mark appears at the start of a file that had none
            case['mutations'].append({'target': 'file', 'op': 'ins_bom',
                                      'i': 0, 'j': 0, 'k': k})
        if f['kind'] == 'text' and f['name'].startswith('rep'):
            case['mutations'].append({'target': 'file', 'op': 'ins',
                                      'i': 0, 'j': 1, 'k': k})
    # a line that shows today's date with a two-digit year (and nothing
    # else gentest may exclude) is compared: one character of it changes
    texts = [(t, 0, case['cmd'][t]) for t in ('stdout', 'stderr')] + [
        ('file', k, f.get('lines', [])) for (k, f) in enumerate(files)
        if f['kind'] == 'text' and not f.get('long_prefix')]
    for (t, k, lines) in texts:
        has_today = any('{TODAY}' in ln for ln in lines)
        ok_idx = [i for (i, ln) in enumerate(lines)
                  if not specific(ln, has_today)]
        for (i, ln) in enumerate(lines):
            if '{TODAY_YY} status ok' in ln and i in ok_idx:
                case['mutations'].append(
                    {'target': t, 'op': 'sub', 'i': ok_idx.index(i),
                     'j': ln.index('status ok') + 2, 'k': k})
                break
    for t in ('stdout', 'stderr'):
        if any('cache at {HOME}' in ln for ln in case['cmd'][t]):
            case['mutations'].append({'target': t, 'op': 'home_digit',
                                      'i': 0, 'j': 0, 'k': 0})
    return case


def strategy(tier):
    nmut = 4 if tier == 'quick' else 6

    def home_line(case):
        # one case in ten: the only machine-specific thing in the output is
        # a path under a home directory whose name holds the user's name
        # (three stdout lines, no stderr: see gentestcmd.Workdir)
        if case['cmd'].pop('home_line', 0) == 0 and case['cmd']['n'] >= 2:
            extra = [ln for ln in case['cmd']['stdout']
                     if not any(t in ln for t in G.MACHINE_TOKENS)
                     and '127.0.0.1' not in ln][:2]
            extra = (extra + ['alpha beta', 'total 7'])[:2]
            case['cmd']['stdout'] = [extra[0],
                                     'cache at {HOME}/.cache/app n=12',
                                     extra[1]]
            case['cmd']['stderr'] = []
            case['cmd']['no_stdout'] = False
        return case
    return st.fixed_dictionaries({
        'cmd': st.tuples(G.command_case(tier), st.integers(0, 9)).map(
            lambda t: dict(t[0], home_line=t[1])),
        'mutations': st.lists(mutation(), min_size=2, max_size=nmut),
    }).map(home_line).map(aim)


def valid(case):
    try:
        if not G.valid_case(case['cmd']):
            return False
        for m in case['mutations']:
            if m['target'] not in ('stdout', 'stderr', 'file', 'missing',
                                   'exit') or m['op'] not in OPS:
                return False
            if not all(isinstance(m[x], int) and m[x] >= 0
                       for x in ('i', 'j', 'k')):
                return False
        return len(case['mutations']) >= 1
    except Exception:
        return False


DATEISH = ['31/02/2020', '1.2.0', '2020-13-45', '1 jan 0000', '12:34:56',
           '23:59', 'v1.2.3', '2024-02-30', '99/99/9999', '3.14.15',
           '12-25-2021 10:11:12', 'Jan 5, 2021', '5 March 2020 09:00',
           '0001-01-01', '2021-06-07T08:09:10Z']


def specific(line, has_today=False):
    """Lines gentest may (by design) exclude from the comparison: those
    holding machine-specific tokens, and - when the same text also shows
    today's date, so that gentest goes looking for date strings to ignore -
    any line holding a date- or time-like token (ignore_substrings works on
    whole lines)."""
    if any(t in line for t in G.MACHINE_TOKENS) or '127.0.0.1' in line or (
            '127.0.1.1' in line):
        return True
    return has_today and any(t in line for t in DATEISH)


def mutate_lines(lines, m, env):
    """Returns new line list or None when the mutation is not applicable."""
    lines = list(lines)
    op = m['op']
    has_today = any('{TODAY}' in ln for ln in lines)
    ok_idx = [i for (i, ln) in enumerate(lines)
              if not specific(ln, has_today)]
    host, user = env['HOST'], env['USER']

    def clean(ln):
        s = G.substitute(ln, env)
        return host not in s and user not in s
    if op == 'home_digit':
        # a line that names a path under the home directory and nothing
        # else that is specific to the machine, in a text without any other
        # machine-specific line: such a line draws a warning and is compared
        idx = [i for (i, ln) in enumerate(lines) if 'cache at {HOME}' in ln]
        others = [ln for (i, ln) in enumerate(lines) if i not in idx[:1]]
        if not idx or any(specific(ln, True) for ln in others) or any(
                t in lines[idx[0]] for t in G.MACHINE_TOKENS
                if t != '{HOME}') or any(t in lines[idx[0]] for t in DATEISH):
            return None
        if '{TODAY' in ' '.join(lines) or 'n=12' not in lines[idx[0]]:
            return None
        lines[idx[0]] = lines[idx[0]].replace('n=12', 'n=17')
        return lines
    if op == 'ins_bom':
        if not lines or lines[0].startswith('\ufeff') or specific(
                lines[0], has_today) or not clean(lines[0]):
            return None
        lines[0] = '\ufeff' + lines[0]
        return lines
    if op == 'addline':
        pos = m['i'] % (len(lines) + 1)
        new = 'ADDED line Q'
        # not at the very end after a blank line, and never a blank line
        lines.insert(pos, new)
        return lines
    if not ok_idx:
        return None
    i = ok_idx[m['i'] % len(ok_idx)]
    ln = lines[i]
    if i == 0 and ln.startswith('\ufeff') and op in ('sub', 'del', 'ins') and (
            m['j'] % max(1, len(ln)) == 0):
        # a leading U+FEFF is an encoding signature (the file is then read
        # as utf-8-sig), not content
        return None
    if op == 'delline':
        if ln.strip() == '' and i == len(lines) - 1:
            return None          # trailing blank line: tolerated by design
        del lines[i]
        if lines == [] and ln == '':
            return None
        return lines
    if op == 'trail':
        lines[i] = ln + ' '
    elif op == 'ins':
        j = m['j'] % (len(ln) + 1)
        lines[i] = ln[:j] + 'Q' + ln[j:]
    elif op == 'ins_token':
        # an ordinary line starts to mention the working directory (lines
        # of the REFERENCE that mention it may be excluded; this line of the
        # reference does not)
        lines[i] = ln + ' cannot write {CWD}/two.dat'
        return lines
    elif op == 'ins_na':
        # a character outside ASCII (the reference may be all ASCII)
        j = m['j'] % (len(ln) + 1)
        lines[i] = ln[:j] + ['\u00e9', '\u0301', '\u20ac'][m['k'] % 3] + ln[j:]
    elif not ln:
        return None
    elif op == 'sub':
        j = m['j'] % len(ln)
        c = 'Q' if ln[j] != 'Q' else 'Z'
        lines[i] = ln[:j] + c + ln[j + 1:]
    elif op == 'del':
        j = m['j'] % len(ln)
        lines[i] = ln[:j] + ln[j + 1:]
        if lines[i] == '' and i == len(lines) - 1:
            return None
    if not clean(lines[i]):
        return None
    return lines


def run(case, ctx):
    out = Outcome()
    cmd = case['cmd']
    root = ctx.fresh_dir()
    wd = G.Workdir(cmd, root, ctx.env)
    r = wd.generate()
    if r.returncode != 0:
        out.label('generation-failed(C11)')
        return out
    r0 = wd.run_script()
    if r0.returncode != 0:
        out.violate('passes-when-unchanged', 'first-run:' + (','.join(
            G.failing_tests(r0)) or 'exit'),
            'nothing has changed since generation but the generated test '
            'fails: %s' % ((r0.stderr or r0.stdout)[-500:]))
        return out
    applied = 0
    for m in case['mutations']:
        tgt = m['target']
        expect_test = None
        desc = None
        wd.write_payloads()
        wd.write_cmd(cmd['exit'])
        if tgt in ('stdout', 'stderr'):
            if cmd['no_' + tgt]:
                continue
            new = mutate_lines(cmd[tgt], m, wd.env)
            if new is None:
                continue
            with open(wd.payload_path(tgt + '.txt'), 'w', encoding='utf-8',
                      newline='') as f:
                f.write(G.text_of(new, wd.env))
            expect_test = 'test_' + tgt
            desc = '%s %s: %r -> %r' % (tgt, m['op'], cmd[tgt], new)
        elif tgt == 'file':
            if not cmd['files']:
                continue
            fi = m['k'] % len(cmd['files'])
            fl = cmd['files'][fi]
            expect_test = G.test_name_for(fl['name'])
            if fl['kind'] == 'text':
                old_lines = G.file_lines(fl)
                new = mutate_lines(old_lines, m, wd.env)
                if new is None:
                    continue
                with open(wd.payload_path('f%d' % fi), 'w',
                          encoding='utf-8', newline='') as f:
                    f.write(G.text_of(new, wd.env,
                                      fl.get('final_newline', True)))
                desc = 'file %s %s: %r -> %r' % (
                    fl['name'], m['op'],
                    [x for x in old_lines if x not in new][:3],
                    [x for x in new if x not in old_lines][:3])
            else:
                data = bytearray(G.file_bytes(fl))
                j = m['j'] % len(data)
                if m['op'] in ('sub', 'trail'):
                    data[j] ^= 0x55
                elif m['op'] == 'addline':
                    j = len(data)
                    data.append(0x51)       # one byte more at the end
                elif m['op'] == 'delline':
                    if len(data) < 2 or data[-1] in (0x0a, 0x0d):
                        # (a "binary" payload that reads as text is compared
                        # as text, where a final newline is not significant)
                        continue
                    j = len(data) - 1
                    del data[j]             # one byte less at the end
                elif m['op'] in ('ins', 'ins_na', 'ins_token'):
                    data.insert(j, 0x51)
                else:
                    if len(data) < 2:
                        continue
                    del data[j]
                with open(wd.payload_path('f%d' % fi), 'wb') as f:
                    f.write(bytes(data))
                desc = 'binary file %s: byte %d %s' % (fl['name'], j,
                                                       m['op'])
        elif tgt == 'missing':
            if not cmd['files']:
                continue
            fi = m['k'] % len(cmd['files'])
            fl = cmd['files'][fi]
            expect_test = G.test_name_for(fl['name'])
            wd.write_cmd(cmd['exit'], skip=fi)
            desc = 'output file %s no longer produced' % fl['name']
        else:
            new_exit = (max(cmd['exit'], 0) + 1 + m['k']) % 5
            if new_exit == cmd['exit']:
                new_exit = (new_exit + 1) % 5
            if cmd['exit'] < 0 and m['k'] % 2:
                new_exit = -15 if cmd['exit'] == -9 else -9
            wd.write_cmd(new_exit)
            expect_test = 'test_exit_code'
            desc = 'exit status %d -> %d' % (cmd['exit'], new_exit)
        applied += 1
        out.label('mutation:%s:%s' % (tgt, m['op'] if tgt in (
            'stdout', 'stderr', 'file') else '-'))
        r1 = wd.run_script()
        failing = G.failing_tests(r1)
        if r1.returncode == 0:
            out.violate('mutation-detected', '%s:%s' % (tgt, m['op'] if tgt
                        in ('stdout', 'stderr', 'file') else '-'),
                        'generated test still passes after: %s' % desc)
        else:
            names = [t for t in failing if t == expect_test
                     or t.startswith(expect_test)]
            if not names:
                out.violate('reported-by-the-right-test', tgt,
                            'after %s the failing tests are %r, expected %s'
                            % (desc, failing, expect_test))
    # nothing changed: passes again
    wd.write_payloads()
    wd.write_cmd(cmd['exit'])
    if applied:
        r2 = wd.run_script()
        if r2.returncode != 0:
            out.violate('passes-when-unchanged', ','.join(
                G.failing_tests(r2)) or 'exit',
                'with the original behaviour restored the test fails: %s'
                % (r2.stderr[-400:]))
    out.nontrivial = applied > 0
    return out


TECHNIQUE = ('property-based mutation of command behaviour (Hypothesis) with '
             'a metamorphic oracle: one behavioural change => the generated '
             'test fails in the test for that object; restore => passes')
LEVEL_TEXT = ('Generated commands are given to gentest; then their output is '
              'changed in one respect at a time and the generated script is '
              're-run as a subprocess: it must fail, in the test named for '
              'the changed stream / file / status, and pass again once the '
              'behaviour is restored.')
LEVEL_NOTE = ('Hundreds of commands x up to 4 mutations per quick run (each a '
              'subprocess). Lines holding host / user / path / IP / today '
              'tokens are never the mutated ones (gentest excludes them by '
              'design).')
