"""
C06 -- detection flags exactly the violating records and agrees with
verification; output file exists only if some constraint failed.
"""

import copy
import json
import os

from hypothesis import strategies as st

from tv.core import Outcome
from tv.gen import frames as F
from tv.gen import constraints as GC
from tv import refmodel as R
from tv.props.c01 import quiet
from tv.props import c02

ID = 'C06'
BUDGET = {'quick': 5000, 'thorough': 150000}
RULE = ('C02\'s (DataFrame, constraint set) generator (bounds placed on and '
        'next to the data extremes, so most cases have >=1 violated '
        'constraint) x per_constraint, write_all, output_fields in {None, '
        '[], subset}, index, in_place, interleave, boolean_ints x outpath in '
        '{none, .csv, .parquet} x a history of 1-3 detect_df calls on the '
        'same outpath alternating the violating constraints with the '
        'satisfied subset, optionally starting with a stale file. Oracle: '
        'verdicts == verify_df verdicts == reference verdicts; per-record '
        'flags == reference per-record predicates; n_failures == number of '
        'false flags; passing+failing == rows; detected() == failing rows '
        '(all with write_all); input frame unchanged unless in_place; file '
        'exists iff the call found a failing constraint and parses back to '
        'the same rows. Non-trivial: >=1 failing constraint with some but '
        'not all records flagged, or a clean call after a failing call; '
        'distinct by case hash.')
RULE += ' ' + 'Also: input frames with stepped / offset / descending / arbitrary-integer / duplicated index labels (frame and file judged by label); a field named <other field>_<suffix>; constraints handed over as a path whose file was rewritten in place after a decoy of the same size; rownumber_is_index=False in a third of the cases (RowNumber column = position from 1).'
RULE += ' ' + 'Round 6: date bounds in the other spellings the loader reads.'
ASSUMPTIONS = ['field names c0..c2 (flag-column naming is not the subject)',
               'kinds only on field types where the format document defines '
               'them, as in C02']

SUFFIX = {'type': 'type', 'min': 'min', 'min_length': 'min_length',
          'max': 'max', 'max_length': 'max_length', 'sign': 'sign',
          'max_nulls': 'nonnull', 'no_duplicates': 'nodups',
          'allowed_values': 'values', 'rex': 'rex'}

C06_KINDS = [k for k in F.ALL_KINDS if k not in F.TZ_KINDS]

# the input frame's index: records are identified by their index label
INDEX_KINDS = ['default', 'stepped', 'offset', 'descending', 'int-labels',
               'dup-labels']


def index_labels(kind, n):
    if kind == 'stepped':
        return [2 * i for i in range(n)]
    if kind == 'offset':
        return [5 + i for i in range(n)]
    if kind == 'descending':
        return [n - 1 - i for i in range(n)]
    if kind == 'int-labels':
        return [100 - 3 * i if i % 2 else 7 * i for i in range(n)]
    if kind == 'dup-labels':
        return [i // 2 for i in range(n)]     # as after an un-reset concat
    return list(range(n))


def set_index(df, kind):
    import pandas as pd
    n = len(df)
    if kind == 'stepped':
        df.index = pd.RangeIndex(0, 2 * n, 2)
    elif kind == 'offset':
        df.index = pd.RangeIndex(5, 5 + n)
    elif kind == 'descending':
        df.index = pd.RangeIndex(n - 1, -1, -1)
    elif kind in ('int-labels', 'dup-labels'):
        df.index = pd.Index(index_labels(kind, n), dtype='int64')
    return df


@st.composite
def case_strategy(draw, tier):
    frame = draw(F.frame_strategy(kinds=C06_KINDS, max_cols=3,
                                  allow_big=False, simple_names=True,
                                  row_choices=[0, 1, 2, 3, 3, 4, 4, 5, 6,
                                               8]))
    if len(frame['cols']) >= 2 and draw(st.integers(0, 2)) == 0:
        # a field whose name is another field's name plus '_...': flag
        # columns are attributed to fields by name prefix
        frame['cols'][-1]['name'] = '%s_%s' % (
            frame['cols'][0]['name'],
            draw(st.sampled_from(['x', 'gbp', 'x_y', '1', 'min', 'ok'])))
    cons = draw(GC.respell_dates(draw(GC.constraint_set(frame, inside=True))))
    names = [c['name'] for c in frame['cols']]
    of = draw(st.sampled_from(['none', 'all', 'subset']))
    if of == 'none':
        output_fields = None
    elif of == 'all':
        output_fields = []
    else:
        output_fields = draw(st.lists(st.sampled_from(names), min_size=1,
                                      max_size=len(names), unique=True))
    return {
        'frame': frame,
        'constraints': cons,
        'epsilon': draw(st.sampled_from([None, 0, 0.01, 0.5])),
        'type_checking': draw(st.sampled_from(['strict', 'sloppy'])),
        'opts': {
            'per_constraint': draw(st.booleans()),
            'write_all': draw(st.booleans()),
            'output_fields': output_fields,
            'index': draw(st.booleans()),
            'in_place': draw(st.sampled_from([False, False, True])),
            'interleave': draw(st.sampled_from([False, False, True])),
            'boolean_ints': draw(st.booleans()),
        },
        'out': draw(st.sampled_from([None, 'csv', 'csv', 'parquet'])),
        'history': draw(st.lists(st.sampled_from(['viol', 'clean']),
                                 min_size=1, max_size=3)),
        'stale': draw(st.booleans()),
        'index_kind': draw(st.sampled_from(INDEX_KINDS + ['default'] * 2)),
        'avoid_known': draw(st.sampled_from([True] * 7 + [False])),
    }


def strategy(tier):
    return case_strategy(tier).map(steer)


F_F32 = 'F-detect-vectorised-precision'


def f32_exact(b):
    import numpy as np
    if isinstance(b, bool) or not isinstance(b, (int, float)):
        return True
    try:
        return float(np.float32(b)) == b
    except OverflowError:
        return False


def f32_inexact_bounds(case):
    """
    (field, kind, why) triples where record-level detection is known to
    lose precision relative to the (exact, scalar) constraint verdict:
    min/max on a float32 column whose bound is not a float32 value (pandas
    compares in float32), and fuzzy min/max on an integer column when the
    bound or some value exceeds 2**53 in magnitude (pandas compares in
    float64, Python compares int with float exactly).
    """
    cols = {c['name']: c for c in case['frame']['cols']}
    hits = []
    for (f, fc) in case['constraints']['fields'].items():
        col = cols.get(f)
        if col is None:
            continue
        for k in ('min', 'max'):
            if k in fc and fc[k] is not None:
                b, p = R.split_bound(fc[k])
                if col['kind'] == 'float32' and not f32_exact(b):
                    hits.append((f, k, 'float32'))
                elif (col['kind'] == 'float32'
                      and p not in ('open', 'closed')
                      and case.get('epsilon') not in (None, 0)):
                    # the fuzzed bound b*(1+-eps) is a double
                    hits.append((f, k, 'bigint'))
                elif (F.tdda_type(col['kind']) == 'int'
                      and case.get('epsilon') not in (None, 0)
                      and p not in ('open', 'closed')
                      and isinstance(b, (int, float))
                      and (abs(b) > 2**53 or any(
                          v is not None and abs(v) > 2**53
                          for v in col['cells']))):
                    hits.append((f, k, 'bigint'))
    return hits


def steer(case):
    import numpy as np
    case['steered'] = []
    if case.pop('avoid_known', True):
        for (f, k, why) in f32_inexact_bounds(case):
            fc = case['constraints']['fields'][f]
            b, p = R.split_bound(fc[k])
            if why == 'bigint':
                fc[k] = {'value': b, 'precision': 'closed'}
            else:
                try:
                    nb = float(np.float32(b))
                    if nb != nb or nb in (float('inf'), float('-inf')):
                        nb = 0.0
                except OverflowError:
                    nb = 0.0
                fc[k] = nb if p is None else {'value': nb, 'precision': p}
            if F_F32 not in case['steered']:
                case['steered'].append(F_F32)
    return case


def valid(case):
    fr = case.get('frame', {})
    if not F.valid_frame(fr):
        return False
    if any(c['kind'] in F.TZ_KINDS for c in fr['cols']):
        return False
    names = [c['name'] for c in fr['cols']]
    if any(not n.startswith('c') or not n[1:].isdigit() for n in names):
        return False
    if not c02.valid_constraints(case.get('constraints'), fr):
        return False
    o = case.get('opts')
    if not isinstance(o, dict) or set(o) != {
            'per_constraint', 'write_all', 'output_fields', 'index',
            'in_place', 'interleave', 'boolean_ints'}:
        return False
    for k in ('per_constraint', 'write_all', 'index', 'in_place',
              'interleave', 'boolean_ints'):
        if not isinstance(o[k], bool):
            return False
    of = o['output_fields']
    if of is not None and (not isinstance(of, list) or any(
            x not in names for x in of) or len(set(of)) != len(of)):
        return False
    h = case.get('history')
    return (case.get('out') in (None, 'csv', 'parquet')
            and isinstance(h, list) and 1 <= len(h) <= 3
            and all(x in ('viol', 'clean') for x in h)
            and isinstance(case.get('stale'), bool)
            and case.get('index_kind', 'default') in INDEX_KINDS
            and case.get('epsilon') in (None, 0, 0.01, 0.5)
            and case.get('type_checking') in ('strict', 'sloppy'))


def satisfied_subset(case, exp):
    """The constraints whose documented verdict is 'satisfied'."""
    cons = {'fields': {}}
    for (f, fc) in case['constraints']['fields'].items():
        keep = {k: v for (k, v) in fc.items() if exp[f][k]}
        if 'type' in fc and fc['type'] == 'date' and 'type' not in keep and (
                'min' in keep or 'max' in keep):
            # date-valued bounds are only read as dates beside type: date
            keep = {k: v for (k, v) in keep.items()
                    if k not in ('min', 'max')}
        if keep:
            cons['fields'][f] = keep
    if not cons['fields']:
        c = case['frame']['cols'][0]
        cons['fields'][c['name']] = {'max_nulls': len(c['cells'])}
    return cons


def expected_flags(case, cons, exp):
    """
    {flag column name: [True/False/None per record]} for every failing
    constraint on an existing field, by the reference predicates.
    """
    cols = {c['name']: (c['kind'], F.py_values(c))
            for c in case['frame']['cols']}
    eps = 0.0 if case['epsilon'] is None else case['epsilon']
    flags = {}
    for (f, fc) in cons['fields'].items():
        if f not in cols:
            continue
        for (k, v) in fc.items():
            if exp[f][k]:
                continue
            flags['%s_%s_ok' % (f, SUFFIX[k])] = R.record_flags(
                k, v, cols[f], eps)
    return flags


def cell_state(x):
    """Normalise a flag cell to True / False / None(null)."""
    import pandas as pd
    if x is None or (not isinstance(x, (bool, str)) and pd.isnull(x)):
        return None
    if isinstance(x, str):
        return {'true': True, 'false': False, '1': True, '0': False}.get(
            x.lower(), x)
    return bool(x)


RECORD_CLAUSES = ('record-counts', 'n_failures', 'flags', 'detected-frame',
                  'output-file')


def attribute_known(out, f32_hits):
    """Record-level disagreements in a case that has a float32 column with
    a non-float32 bound belong to the recorded finding."""
    if not f32_hits:
        return
    keep = []
    for (clause, bucket, detail) in out.violations:
        if clause in RECORD_CLAUSES:
            out.known_hit(F_F32, '%s [%s] %s' % (clause, bucket, detail))
        else:
            keep.append((clause, bucket, detail))
    out.violations = keep


def run(case, ctx):
    out = run_inner(case, ctx)
    attribute_known(out, f32_inexact_bounds(case))
    return out


def run_inner(case, ctx):
    import pandas as pd
    from tdda.constraints import verify_df, detect_df
    out = Outcome()
    out.excluded = list(case.get('steered', []))
    desc = case['frame']
    n = desc['n']
    names = [c['name'] for c in desc['cols']]
    o = case['opts']
    f32_hits = f32_inexact_bounds(case)
    exp_all = c02.expected_verdicts(case)
    clean_cons = satisfied_subset(case, exp_all)
    clean_case = dict(case, constraints=clean_cons)
    exp_clean = c02.expected_verdicts(clean_case)
    d = ctx.fresh_dir()
    outpath = None
    if case['out']:
        outpath = os.path.join(d, 'detected.' + case['out'])
        if case['stale']:
            with open(outpath, 'w') as f:
                f.write('stale,file\n1,2\n')
            out.label('stale-file')
    out.label('out:%s' % case['out'],
              'per_constraint' if o['per_constraint'] else 'summary-only',
              'write_all' if o['write_all'] else 'failing-only')
    prev_failed = False
    for step, what in enumerate(case['history']):
        cons = case['constraints'] if what == 'viol' else clean_cons
        exp = exp_all if what == 'viol' else exp_clean
        cur_case = case if what == 'viol' else clean_case
        df = set_index(F.build_frame(desc), case.get('index_kind'))
        labels = index_labels(case.get('index_kind'), n)
        before = df.copy(deep=True)
        before_index_name = df.index.name
        kw = dict(epsilon=case['epsilon'],
                  type_checking=case['type_checking'], repair=False)
        # the file's leading column: the frame's index labels (default), or
        # row numbers from 1 (what the command line asks for)
        rownumber = (case['frame']['n'] + len(case['history'])) % 3 == 0
        if rownumber:
            out.label('rownumber_is_index=False')
        cons_arg = copy.deepcopy(cons)
        if len(json.dumps(case['constraints'], sort_keys=True)) % 3 == 0:
            # the constraints come from a file that held another set of the
            # same size a moment ago and was used for detection then
            out.label('history:constraints-file-rewritten-in-place')
            shared = os.path.join(ctx.scratch, 'shared.tdda')
            text = json.dumps(cons, ensure_ascii=False)
            decoy = '{"fields": {}}'
            decoy += ' ' * max(0, len(text.encode('utf-8')) - len(decoy))
            with open(shared, 'w', encoding='utf-8') as f:
                f.write(decoy)
            quiet(detect_df, df.copy(), shared, **kw)
            quiet(verify_df, df.copy(), shared, **kw)
            with open(shared, 'w', encoding='utf-8') as f:
                f.write(text)
            cons_arg = shared
        ok, vv = quiet(verify_df, df.copy(), copy.deepcopy(cons_arg), **kw)
        if not ok:
            out.violate('never-raises', vv.bucket(), vv.detail())
            return out
        ok, v = quiet(detect_df, df, copy.deepcopy(cons_arg), outpath=outpath,
                      write_all=o['write_all'],
                      per_constraint=o['per_constraint'],
                      output_fields=(None if o['output_fields'] is None
                                     else list(o['output_fields'])),
                      index=o['index'], in_place=o['in_place'],
                      interleave=o['interleave'],
                      boolean_ints=o['boolean_ints'],
                      rownumber_is_index=not rownumber, **kw)
        if not ok:
            out.violate('never-raises', v.bucket(), 'step %d (%s): %s'
                        % (step, what, v.detail()))
            return out
        tag = 'step%d:%s' % (step, what)
        # (1) verdicts: detection == verification == reference
        gv = {f: {k: bool(x) for (k, x) in fr.items()}
              for (f, fr) in vv.fields.items()}
        gd = {f: {k: bool(x) for (k, x) in fr.items()}
              for (f, fr) in v.fields.items()}
        if gv != gd:
            out.violate('verdicts-equal-verification', 'differ',
                        '%s: detect %r vs verify %r' % (tag, gd, gv))
            return out
        if not c02.check_result(out, v, exp, cur_case, tag=':detect'):
            return out
        n_failing_constraints = sum(1 for f in exp for k in exp[f]
                                    if not exp[f][k])
        flags = expected_flags(cur_case, cons, exp)
        exp_nf = [sum(1 for fl in flags.values() if fl[i] is False)
                  for i in range(n)]
        failing_rows = [i for i in range(n) if exp_nf[i] > 0]
        if n_failing_constraints:
            out.label('has-failing-constraint')
            if 0 < len(failing_rows) < n:
                out.nontrivial = True
        if what == 'clean' and prev_failed:
            out.label('clean-after-failing')
            out.nontrivial = True
        det = v.detection
        # (3) record counts
        if n_failing_constraints == 0:
            if det is not None and det.n_failing_records != 0:
                out.violate('record-counts', 'clean-has-failing-records',
                            '%s: n_failing_records=%r with no failing '
                            'constraint' % (tag, det.n_failing_records))
        else:
            if det is None:
                out.violate('record-counts', 'no-detection-object',
                            '%s: %d constraints fail but detection is None'
                            % (tag, n_failing_constraints))
                return out
            if (det.n_passing_records + det.n_failing_records != n
                    or det.n_failing_records != len(failing_rows)):
                out.violate('record-counts', 'partition',
                            '%s: passing/failing %r/%r; rows %d, rows with '
                            'a violated record-level predicate %d (%r)'
                            % (tag, det.n_passing_records,
                               det.n_failing_records, n, len(failing_rows),
                               failing_rows))
        # (4) detected frame
        ok, got = quiet(v.detected)
        if not ok:
            out.violate('never-raises', got.bucket(), got.detail())
            return out
        want_rows = list(range(n)) if o['write_all'] else failing_rows
        if n_failing_constraints == 0:
            if got is not None and len(got) and not o['write_all']:
                out.violate('detected-frame', 'rows-when-clean',
                            '%s: %d rows' % (tag, len(got)))
        elif got is None:
            out.violate('detected-frame', 'none',
                        '%s: detected() is None' % tag)
        else:
            # (when a typed file is written with an Index column, the
            # labels move into that column of the returned frame too)
            got_labels = (list(got['Index']) if 'Index' in got.columns
                          else list(got.index))
            if got_labels != [labels[i] for i in want_rows]:
                out.violate('detected-frame', 'rows',
                            '%s: rows %r, expected %r (write_all=%s)'
                            % (tag, got_labels,
                               [labels[i] for i in want_rows],
                               o['write_all']))
            else:
                self_check_frame(out, tag, got, want_rows, flags, exp_nf,
                                 desc, o)
        # (5) input frame
        check_input_unchanged(out, tag, df, before, before_index_name, o,
                              flags, n_failing_constraints)
        if o['in_place'] and step == 0:
            # in-place output with the default type repair switched on: no
            # reference for the verdicts there (repair may convert columns),
            # but whatever detection reports must be in the caller's frame
            dfr = set_index(F.build_frame(desc), case.get('index_kind'))
            okr, vr = quiet(detect_df, dfr, copy.deepcopy(cons),
                            per_constraint=o['per_constraint'],
                            in_place=True, epsilon=case['epsilon'],
                            type_checking=case['type_checking'], repair=True)
            if okr and vr.detection is not None and (
                    vr.detection.n_failing_records > 0):
                out.label('in_place+repair')
                if 'n_failures' not in dfr.columns and not any(
                        str(c).startswith('n_failures') for c in dfr.columns):
                    out.violate('input-frame', 'in-place-with-repair',
                                '%s: in_place=True with repair on: %d failing '
                                'records reported, but the frame handed in '
                                'has columns %r' % (
                                    tag, vr.detection.n_failing_records,
                                    list(dfr.columns)))
        # (6) output file
        if outpath:
            exists = os.path.exists(outpath)
            if exists and n_failing_constraints == 0:
                out.violate('output-file', 'exists-after-clean-run',
                            '%s: %s exists though no constraint failed%s'
                            % (tag, os.path.basename(outpath),
                               ' (stale file was present)'
                               if case['stale'] and step == 0 else ''))
            elif exists:
                check_file(out, tag, outpath, case, want_rows, exp_nf, flags,
                           o)
            elif n_failing_constraints and len(want_rows) > 0:
                out.violate('output-file', 'missing',
                            '%s: %d records to report but no file'
                            % (tag, len(want_rows)))
        prev_failed = n_failing_constraints > 0
    return out


def self_check_frame(out, tag, got, want_rows, flags, exp_nf, desc, o):
    import pandas as pd
    cols = list(got.columns)
    if len(set(cols)) != len(cols):
        out.violate('detected-frame', 'duplicate-columns',
                    '%s: %r' % (tag, cols))
        return
    if 'n_failures' not in cols:
        out.violate('detected-frame', 'no-n_failures', '%s: %r' % (tag, cols))
        return
    nf = [int(x) for x in got['n_failures']]
    if nf != [exp_nf[i] for i in want_rows]:
        out.violate('n_failures', 'per-record',
                    '%s: n_failures %r, false record-level predicates %r'
                    % (tag, nf, [exp_nf[i] for i in want_rows]))
    names = [c['name'] for c in desc['cols']]
    of = o['output_fields']
    want_orig = [] if of is None else (names if of == [] else list(of))
    flag_cols = [c for c in cols if c.endswith('_ok')
                 and c not in want_orig]
    if o['per_constraint']:
        if set(flag_cols) != set(flags):
            out.violate('flags', 'columns',
                        '%s: flag columns %r, failing constraints on '
                        'existing fields %r' % (tag, sorted(flag_cols),
                                                sorted(flags)))
        else:
            for fc in flag_cols:
                gotf = [cell_state(x) for x in got[fc]]
                wantf = [flags[fc][i] for i in want_rows]
                # the statement fixes where a flag is FALSE; a null cell
                # may be shown as null or as true
                if [x is False for x in gotf] != [x is False
                                                  for x in wantf]:
                    kind = fc.rsplit('_', 2)[1] if fc.count('_') >= 2 else fc
                    out.violate('flags', 'values:' + fc.split('_', 1)[1],
                                '%s: %s is %r, reference predicate gives %r '
                                'for rows %r' % (tag, fc, gotf, wantf,
                                                 want_rows))
            # each record's failure count equals its number of false flags
            for j, i in enumerate(want_rows):
                nfalse = sum(1 for fc in flag_cols
                             if cell_state(got[fc].iloc[j]) is False)
                if nfalse != nf[j]:
                    out.violate('n_failures', 'vs-own-flags',
                                '%s: row %d has %d false flags but '
                                'n_failures=%d' % (tag, i, nfalse, nf[j]))
                    break
    elif flag_cols:
        out.violate('flags', 'present-without-per_constraint',
                    '%s: %r' % (tag, flag_cols))
    got_orig = [c for c in cols if c in names]
    if sorted(got_orig) != sorted(want_orig):
        out.violate('detected-frame', 'original-columns',
                    '%s: original columns %r, requested %r'
                    % (tag, got_orig, want_orig))
    else:
        src = F.build_frame(desc)
        for c in got_orig:
            a = list(got[c])
            b = list(src[c].iloc[want_rows])
            if not all((pd.isnull(x) and pd.isnull(y)) or x == y
                       for (x, y) in zip(a, b)):
                out.violate('detected-frame', 'original-values',
                            '%s: column %r holds %r, data %r'
                            % (tag, c, a[:8], b[:8]))


def check_input_unchanged(out, tag, df, before, before_index_name, o, flags,
                          n_failing):
    import pandas as pd
    try:
        if o['in_place']:
            added = [c for c in df.columns if c not in before.columns]
            pd.testing.assert_frame_equal(df[list(before.columns)], before,
                                          check_names=True)
            allowed = set(flags) | {'n_failures'}
            extra = [c for c in added if c not in allowed]
            if extra:
                out.violate('input-frame', 'in_place-extra-columns',
                            '%s: added %r' % (tag, extra))
        else:
            if list(df.columns) != list(before.columns):
                out.violate('input-frame', 'columns-changed',
                            '%s: %r -> %r' % (tag, list(before.columns),
                                              list(df.columns)))
                return
            pd.testing.assert_frame_equal(df, before, check_names=True)
            if df.index.name != before_index_name:
                out.violate('input-frame', 'index-name',
                            '%s: index name %r -> %r'
                            % (tag, before_index_name, df.index.name))
    except AssertionError as e:
        out.violate('input-frame', 'changed', '%s: %s' % (tag,
                                                           str(e)[:300]))


def check_file(out, tag, path, case, want_rows, exp_nf, flags, o):
    import pandas as pd
    try:
        if path.endswith('.parquet'):
            f = pd.read_parquet(path)
        else:
            f = pd.read_csv(path, dtype=str, keep_default_na=False,
                            encoding='utf-8')
    except Exception as e:
        if os.path.getsize(path) == 0 or not want_rows:
            return
        if (not path.endswith('.parquet') and o['output_fields'] is not None
                and any(F.tdda_type(c['kind']) == 'string'
                        and any(isinstance(x, str) and '\r' in x
                                for x in c['cells'])
                        for c in case['frame']['cols'])):
            # a raw CR inside a copied string column: pandas' CSV writer
            # does not quote it and pandas' reader then rejects the file;
            # that says nothing about tdda (see below)
            out.label('csv-with-raw-strings-not-reparsed')
            return
        out.violate('output-file', 'unreadable',
                    '%s: %s: %s' % (tag, type(e).__name__, str(e)[:200]))
        return
    if 'n_failures' not in f.columns:
        out.violate('output-file', 'no-n_failures',
                    '%s: columns %r' % (tag, list(f.columns)))
        return
    try:
        nf = [int(x) for x in f['n_failures']]
    except (TypeError, ValueError):
        # original string columns written next to the counts can contain
        # CR / quotes that pandas' own CSV writer does not protect; such
        # a file says nothing about tdda, so it is labelled, not judged
        if o['output_fields'] is not None and any(
                F.tdda_type(c['kind']) == 'string'
                for c in case['frame']['cols']):
            out.label('csv-with-raw-strings-not-reparsed')
            return
        out.violate('output-file', 'n_failures-unparseable',
                    '%s: %r' % (tag, list(f['n_failures'])[:10]))
        return
    want = [exp_nf[i] for i in want_rows]
    if len(nf) != len(want) and o['output_fields'] is not None and any(
            F.tdda_type(c['kind']) == 'string'
            for c in case['frame']['cols']) and path.endswith('.csv'):
        out.label('csv-with-raw-strings-not-reparsed')
        return
    if nf != want:
        out.violate('output-file', 'n_failures',
                    '%s: file has n_failures %r, expected %r for rows %r'
                    % (tag, nf, want, want_rows))
        return
    if 'RowNumber' in f.columns and 'RowNumber' not in [
            c['name'] for c in case['frame']['cols']]:
        if [int(x) for x in f['RowNumber']] != [i + 1 for i in want_rows]:
            out.violate('output-file', 'row-numbers',
                        '%s: RowNumber column %r, positions (from 1) of the '
                        'rows %r' % (tag, list(f['RowNumber']),
                                     [i + 1 for i in want_rows]))
    labels = index_labels(case.get('index_kind'), case['frame']['n'])
    if 'Index' in f.columns and [int(x) for x in f['Index']] != [
            labels[i] for i in want_rows]:
        out.violate('output-file', 'index',
                    '%s: Index column %r, labels of the rows %r'
                    % (tag, list(f['Index']),
                       [labels[i] for i in want_rows]))
    if o['per_constraint']:
        for fc in flags:
            if fc not in f.columns:
                out.violate('output-file', 'flag-column-missing',
                            '%s: %s not in %r' % (tag, fc, list(f.columns)))
                continue
            gotf = [cell_state(x) if x != '' else None for x in f[fc]]
            wantf = [flags[fc][i] for i in want_rows]
            if [x is False for x in gotf] != [x is False for x in wantf]:
                out.violate('output-file', 'flag-values',
                            '%s: %s in file is %r, expected %r'
                            % (tag, fc, gotf, wantf))


TECHNIQUE = ('model-based property testing (Hypothesis): per-record reference '
             'predicates and counting identities, verify/detect '
             'differential, and file-exists-iff-failed over generated call '
             'histories')
LEVEL_TEXT = ('Generated (DataFrame, constraint set, detection options, '
              'output kind, call history) cases; verdicts are compared with '
              'verify_df and with the reference model, per-record flags with '
              'independent per-record predicates, counts with each other, '
              'the input frame with a deep copy, and the output file with '
              'the expected rows after every call of the history.')
LEVEL_NOTE = ('Trusted: tv/refmodel.py predicates, pandas readers for the '
              'written CSV/parquet. Field names are c0..c2.')
