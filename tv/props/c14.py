"""
C14 -- results depend only on the multiset of examples and the seed.

Stateful, model-based: a case is a history of steps executed in ONE process
(shared regex memo, shared global RNG).  The model remembers, per (example
set, seed), the first result; every later extraction of the same set in any
input form / order must reproduce it, and a seeded call must leave
random.getstate() as it found it.
"""

import hashlib
import os
import random
from collections import Counter

from hypothesis import strategies as st

from tv.core import Outcome, call
from tv.gen import rex as G
from tv.props import c03

ID = 'C14'
BUDGET = {'quick': 6000, 'thorough': 200000}
RULE = ('A case is a history: 1-3 example sets (C03 templates, default '
        'pruning options, Size settings incl. ones that force sampling on '
        '<=18 strings) and 2-8 steps drawn from {extract(set, seed, form in '
        'as-is/permuted/frequency-dict/with-repeats/Series), perturb the '
        'global RNG, clear the regex memo, unrelated rexpy call}. Oracle: '
        'every extract of one (set, seed) equals the first one whenever the '
        'result is claimed to be determined (seed given, or no sampling); '
        'random.getstate() after a seeded call equals the state before it. '
        'Plus a differential over interpreters: 192 (quick) / 3000 '
        '(thorough) generated sets (in pairs sharing their options) are each '
        'extracted (list and dict form, '
        'seed 1 and, where nothing is sampled, no seed) in fresh '
        'interpreters under PYTHONHASHSEED 0, 1, 4242 and 987654321, two of '
        'which go through the sets in reverse order; the results must be '
        'equal. '
        'Non-trivial: >=3 distinct examples and >=2 expressions in a '
        'compared result, or a seeded call on the sampling path; distinct by '
        'case hash.')
RULE += ' ' + 'Also: input forms dict with zero-count keys, categorical Series with unused categories, byte strings with utf-8-sig (BOM-prefixed duplicates) and byte-string frequency dictionaries; pruning options (where repeating an example is a different multiset and is not generated); empty multisets by construction; the interpreter differential works on pairs of sets sharing their options, half of the interpreters in reverse order.'
RULE += ' ' + 'Round 6: the third documented input form, a check function modelled on rexpy.example_check_function (random.sample of the failures beyond maxN), compared among its own calls; constructed sets of eight words where one of two extra letters is rare and do_all is 2-4, extracted twice through a check function with one seed and a disturbed global generator in between.'
RULE += ' ' + "Round 7: seed 'seed-a' in the interpreter differential; defaultdict input with the zero-count entry a lookup leaves behind."
RULE += ' ' + 'Round 8: one case in eighty is a set of 8006 distinct examples (written as a formula in the case) extracted four times with size=0 and no seed, the global generator disturbed and the order permuted in between.'
ASSUMPTIONS = ['Series form goes through pdextract, which only takes a seed: '
               'it is compared with the default-option list extraction']

F_ORDER_SAMPLE = 'F-rexpy-sample-depends-on-order'

VARIANTS = ['asis', 'perm', 'dict', 'repeat', 'series', 'dict0',
            'series-cat', 'bytes', 'bytes-dict', 'raises', 'function',
            'defaultdict']


def generated_examples(kind):
    """Large example sets written as a formula: 8000 distinct strings of
    currency / section signs and six strings of accented letters (which
    the expression for the signs happens to match as well)."""
    import itertools
    assert kind == 'currency8006'
    bulk = []
    for n in range(1, 8):
        for t in itertools.product('\u20ac\xa3\xa5\xa7', repeat=n):
            bulk.append(''.join(t))
    return bulk[:8000] + ['\xe9', '\xdf\xdf', '\xf1\xf1\xf1',
                          '\xf8\xf8\xf8\xf8', '\xfc' * 5, '\xe5' * 6]


def expanded(s):
    if s.get('examples_gen'):
        return dict(s, examples=generated_examples(s['examples_gen']))
    return s


def check_function_for(xs, sampled):
    """The third documented input form: a check function written after
    rexpy's example_check_function - the distinct strings (here in sorted
    order, so that only the random state decides a sample) that match none
    of the expressions, at most maxN of them chosen with random.sample."""
    import re
    from tdda.rexpy.rexpy import Examples
    c = Counter(x for x in xs if x is not None)
    strings = sorted(c)

    def check(rexes, maxN=None):
        re_freqs = [0] * len(rexes)
        failures = []
        if rexes:
            patterns = [re.compile(r, G.FLAGS) for r in rexes]
            for u in strings:
                for (i, r) in enumerate(patterns):
                    if re.fullmatch(r, u):
                        re_freqs[i] += c[u]
                        break
                else:
                    failures.append(u)
        else:
            failures = list(strings)
        if maxN is not None and len(failures) > maxN:
            sampled.append(len(failures))
            failures = random.sample(failures, maxN)
        return Examples(failures, [c[u] for u in failures]), re_freqs
    return check


def set_strategy(tier):
    regular = st.fixed_dictionaries({
        'examples': G.examples_strategy(tier, allow_none=True),
        'opts': G.opts_strategy(with_pruning=True),
        'size': G.size_strategy(),
    })
    # nothing to extract from: only nulls, or only blanks that the options
    # discard (the empty multiset is a multiset too)
    nothing = st.fixed_dictionaries({
        'examples': st.lists(st.sampled_from([None, None, '', ' ', '\t ']),
                             min_size=1, max_size=4),
        'opts': G.opts_strategy(with_pruning=True).map(
            lambda o: dict(o, remove_empties=True, strip=True)),
        'size': G.size_strategy(),
    })
    # as many distinct examples as may still be used in full, more of them
    # with repeats: whether rexpy samples must go by the distinct count
    threshold = st.fixed_dictionaries({
        'examples': st.permutations(['alpha', 'beta', 'gamma', 'delta',
                                     'eps_one', 'zeta-two', 'eta-seven',
                                     'theta']).map(list),
        'opts': G.opts_strategy(with_pruning=False).map(
            lambda o: dict(o, extra_letters='_-', strip=False)),
        'size': st.sampled_from([{'do_all': 10, 'do_all_exceptions': 3},
                                 {'do_all': 8, 'do_all_exceptions': 2},
                                 {'do_all': 9, 'do_all_exceptions': 1,
                                  'n_per_length': 1}]),
    })
    # few examples used at first, one of the two extra letters rare: what
    # is returned goes by which examples the first sample holds
    first_sample = st.fixed_dictionaries({
        'examples': st.permutations(['alpha_a', 'beta_b', 'gamma_c',
                                     'delta_d', 'eps_one', 'zeta-two',
                                     'eta_seven', 'theta_x']).map(list),
        'opts': G.opts_strategy(with_pruning=False).map(
            lambda o: dict(o, extra_letters='_-', strip=False)),
        'size': st.sampled_from([{'do_all': 3, 'do_all_exceptions': 3},
                                 {'do_all': 2, 'do_all_exceptions': 3},
                                 {'do_all': 4, 'do_all_exceptions': 2}]),
    })
    return st.integers(0, 14).flatmap(
        lambda k: nothing if k == 0 else threshold if k == 1
        else first_sample if k == 2 else regular)


def step_strategy():
    return st.one_of(
        st.fixed_dictionaries({
            'op': st.just('extract'),
            'set': st.integers(0, 2),
            'seed': st.sampled_from([None, 0, 1, 1, 2, 7]),
            'variant': st.sampled_from(VARIANTS),
            'key': st.integers(0, 999),
        }),
        st.fixed_dictionaries({
            'op': st.just('extract'),
            'set': st.integers(0, 2),
            'seed': st.sampled_from([None, 0, 1, 1, 2, 7]),
            'variant': st.sampled_from(VARIANTS),
            'key': st.integers(0, 999),
        }),
        st.fixed_dictionaries({'op': st.just('rng'),
                               'k': st.integers(0, 5)}),
        st.fixed_dictionaries({'op': st.just('clear_memo')}),
        st.fixed_dictionaries({'op': st.just('other'),
                               'set': st.integers(0, 2)}),
    )


def add_function_steps(case):
    """A set built for the first sample is extracted twice through a check
    function with one seed, the global generator being disturbed in
    between."""
    for (i, s) in enumerate(case['sets']):
        sz = s.get('size')
        if ('zeta-two' in s['examples'] and isinstance(sz, dict)
                and sz.get('do_all', 99) <= 4):
            k = len(case['steps'])
            case['steps'] = case['steps'][:5] + [
                {'op': 'extract', 'set': i, 'seed': 1 + k % 2,
                 'variant': 'function', 'key': 0},
                {'op': 'rng', 'k': k % 6},
                {'op': 'extract', 'set': i, 'seed': 1 + k % 2,
                 'variant': 'function', 'key': 0}]
            break
    return case


def big_unsampled():
    """More than 4000 distinct examples with sampling switched off
    (size=0) and no seed: the result does not depend on the state of the
    global generator, nor on the order."""
    return st.integers(0, 5).map(lambda k: {
        'sets': [{'examples_gen': 'currency8006', 'opts': {}, 'size': 0}],
        'steps': [{'op': 'extract', 'set': 0, 'seed': None,
                   'variant': 'asis', 'key': 0},
                  {'op': 'rng', 'k': k},
                  {'op': 'extract', 'set': 0, 'seed': None,
                   'variant': 'asis', 'key': 0},
                  {'op': 'rng', 'k': k + 3},
                  {'op': 'extract', 'set': 0, 'seed': None,
                   'variant': 'perm', 'key': k},
                  {'op': 'rng', 'k': 1},
                  {'op': 'extract', 'set': 0, 'seed': None,
                   'variant': 'asis', 'key': 0}]})


def strategy(tier):
    usual = st.fixed_dictionaries({
        'sets': st.lists(set_strategy(tier), min_size=1, max_size=3),
        'steps': st.lists(step_strategy(), min_size=2, max_size=8),
    }).map(add_function_steps)
    return st.integers(0, 79).flatmap(
        lambda k: big_unsampled() if k == 0 else usual)


def valid(case):
    if 'hashseed_set' in case:
        s = case['hashseed_set']
        return isinstance(s, dict) and c03.valid(
            {'examples': s.get('examples'), 'opts': s.get('opts'),
             'size': s.get('size'), 'form': 'list'})
    sets = case.get('sets')
    if not isinstance(sets, list) or not sets:
        return False
    for s in sets:
        if s.get('examples_gen') == 'currency8006' and s.get(
                'size') in (0, None) and s.get('opts') == {}:
            continue
        c = {'examples': s.get('examples'), 'opts': s.get('opts'),
             'size': s.get('size'), 'form': 'list'}
        if not c03.valid(c):
            return False
    for st_ in case.get('steps', []):
        if st_.get('op') not in ('extract', 'rng', 'clear_memo', 'other'):
            return False
        if st_['op'] == 'extract' and (
                st_.get('variant') not in VARIANTS
                or not isinstance(st_.get('set'), int)
                or not isinstance(st_.get('key'), int)
                or not (st_.get('seed') is None
                        or isinstance(st_.get('seed'), int))):
            return False
        if st_['op'] == 'other' and not isinstance(st_.get('set'), int):
            return False
        if st_['op'] == 'rng' and not isinstance(st_.get('k'), int):
            return False
    return isinstance(case.get('steps'), list)


def det_perm(xs, key):
    """A permutation of xs determined by key (no RNG)."""
    def h(i):
        return hashlib.sha1(('%d|%d' % (key, i)).encode()).hexdigest()
    idx = sorted(range(len(xs)), key=h)
    return [xs[i] for i in idx]


def order_sig(given):
    """Order in which distinct non-null examples are presented."""
    seen = []
    for x in given:
        if x is not None and x not in seen:
            seen.append(x)
    return seen


def variant_input(xs, variant, key):
    if variant == 'asis':
        return list(xs)
    if variant == 'perm':
        return det_perm(xs, key)
    if variant in ('dict', 'dict0'):
        c = Counter()
        order = []
        for x in det_perm(xs, key):
            if x not in c:
                order.append(x)
            c[x] += 1
        d = {x: c[x] for x in order}
        if variant == 'dict0':
            # the same multiset, written with some multiplicity-0 entries
            zs = [z for (i, z) in enumerate(G.ZERO_KEYS)
                  if z not in c and ((key >> (i % 9)) & 1 or i == key % 9)]
            d = dict([(z, 0) for z in zs[:1]] + list(d.items())
                     + [(z, 0) for z in zs[1:]])
        return d
    if variant == 'defaultdict':
        # a dict subclass, with the zero-count entry a lookup leaves behind
        from collections import defaultdict
        d = defaultdict(int)
        for x in det_perm(xs, key):
            d[x] += 1
        if key % 2:
            d['never supplied zq-%d' % key]
        return d
    if variant == 'repeat':
        reps = [x for (i, x) in enumerate(xs) if (key >> (i % 10)) & 1]
        return list(xs) + (reps or list(xs[:1]))
    if variant == 'bytes':
        # byte strings; with utf-8-sig a leading BOM decodes to nothing, so
        # different byte strings can be the same example
        # (nulls are left out: with an encoding rexpy decodes every entry)
        return [((b'\xef\xbb\xbf' if (key >> (i % 10)) & 1 else b'')
                 + x.encode('utf-8')) for (i, x) in enumerate(xs)
                if x is not None]
    if variant == 'bytes-dict':
        c = Counter(x for x in xs if x is not None)
        return {x.encode('utf-8'): n for (x, n) in c.items()}
    raise ValueError(variant)


HASH_SEEDS = ['0', '1', '4242', '987654321']


def hashseed_results(sets, ctx):
    """{hash seed: list of result dicts} from fresh interpreters."""
    import json
    import subprocess
    import sys
    d = ctx.fresh_dir()
    path = os.path.join(d, 'sets.json')
    with open(path, 'w', encoding='utf-8') as f:
        json.dump(sets, f, ensure_ascii=True)
    res = {}
    rpath = os.path.join(d, 'sets-reversed.json')
    with open(rpath, 'w', encoding='utf-8') as f:
        json.dump(list(reversed(sets)), f, ensure_ascii=True)
    for (k, hs) in enumerate(HASH_SEEDS):
        env = dict(os.environ, PYTHONHASHSEED=hs)
        # every other interpreter works through the sets in reverse order:
        # what one call leaves behind for the next must not matter either
        r = subprocess.run([sys.executable, '-m', 'tv.hashseed_helper',
                            rpath if k % 2 else path]
                           # ... and in every other one each set is first
                           # extracted once with full_escape the other way
                           # round (result discarded)
                           + (['flip'] if k % 2 else []),
                           env=env, stdout=subprocess.PIPE,
                           stderr=subprocess.PIPE, text=True, timeout=1800)
        if r.returncode != 0:
            raise RuntimeError('hashseed helper failed: ' + r.stderr[-500:])
        res[hs] = json.loads(r.stdout)
        if k % 2:
            res[hs].reverse()
    return res


def judge_hashseed(s, per_seed):
    out = Outcome()
    out.label('hash-seed-differential')
    base = per_seed[HASH_SEEDS[0]]
    out.nontrivial = any(isinstance(v, list) and len(v) >= 2
                         for v in base.values())
    for hs in HASH_SEEDS[1:]:
        for (k, v) in per_seed[hs].items():
            if v != base.get(k):
                out.violate('same-result-under-any-hash-seed', k.split('/')[0],
                            '%s: PYTHONHASHSEED=%s gave %r, PYTHONHASHSEED=%s '
                            '(sets extracted in the opposite order) gave %r '
                            'for examples %r'
                            % (k, HASH_SEEDS[0], base.get(k), hs, v,
                               s['examples'][:12]))
                return out
    return out


def extra(tier, ctx, info, seed_value):
    """The same extraction in fresh interpreters under different string
    hash seeds (set / dict iteration order inside rexpy must not leak into
    the result)."""
    from hypothesis import given, settings, seed, Phase, HealthCheck
    from tv.core import derive_seed
    n = 192 if tier == 'quick' else 3000
    sets = []

    @seed(derive_seed(seed_value, 'C14-hashseed', 0))
    @settings(max_examples=n, database=None, deadline=None,
              phases=[Phase.generate],
              suppress_health_check=list(HealthCheck))
    @given(set_strategy(tier))
    def collect(s):
        sets.append(s)
    collect()
    # pairs of sets extracted with the SAME options, each holding a
    # different one of the extra letters: what the first call of a pair
    # works out about the options must not be reused for the second
    for i in range(0, len(sets) - 1, 2):
        a, b = sets[i], sets[i + 1]
        b['opts'] = dict(a['opts'])
        el = a['opts'].get('extra_letters') or ''
        if len(el) >= 2:
            a['examples'] = list(a['examples']) + ['ab%scd' % el[0],
                                                   'xy%sz' % el[0]]
            b['examples'] = list(b['examples']) + ['ef%sgh' % el[1],
                                                   'uv%sw' % el[-1]]
    res = hashseed_results(sets, ctx)
    info['hashseed_sets'] = len(sets)
    info['hash_seeds'] = list(HASH_SEEDS)
    for (i, s) in enumerate(sets):
        yield ({'hashseed_set': s},
               judge_hashseed(s, {hs: res[hs][i] for hs in HASH_SEEDS}))


def run(case, ctx):
    if 'hashseed_set' in case:
        s = case['hashseed_set']
        res = hashseed_results([s], ctx)
        return judge_hashseed(s, {hs: res[hs][0] for hs in HASH_SEEDS})
    from tdda.rexpy import rexpy
    out = Outcome()
    sets = [expanded(s) for s in case['sets']]
    first = {}      # (set index, seed, 'opts'|'default') -> (result, step no)
    for n, step in enumerate(case['steps']):
        op = step['op']
        if op == 'rng':
            for _ in range(step['k'] + 1):
                random.random()
            continue
        if op == 'clear_memo':
            rexpy.memo.clear()
            continue
        s = sets[step['set'] % len(sets)]
        si = step['set'] % len(sets)
        xs = s['examples']
        c = {'examples': xs, 'opts': s['opts'], 'size': s.get('size'),
             'seed': None, 'form': 'list'}
        if op == 'other':
            # unrelated rexpy activity sharing the memo: different options
            c2 = dict(c, opts=dict(s['opts'], tag=not s['opts'].get('tag')))
            call(G.run_extract, c2)
            continue
        seed = step.get('seed')
        variant = step['variant']
        kept = G.kept_examples(c)
        distinct = sorted(set(kept))
        if variant == 'raises':
            # a seeded call that fails (byte strings without an encoding):
            # the caller's random generator is the caller's all the same
            before = random.getstate()
            okx, rx = call(rexpy.extract, [b'ab', b'cd', None],
                           seed=seed if seed is not None else 3)
            out.label('variant:raises')
            if random.getstate() != before:
                out.violate('rng-state-preserved', 'after-exception',
                            'step %d: random.getstate() changed across a '
                            'seeded extract() that raised %s'
                            % (n, 'nothing' if okx else rx.type))
            continue
        if variant == 'repeat' and (
                s['opts'].get('max_patterns') is not None
                or s['opts'].get('min_strings_per_pattern', 1) > 1):
            # pruning goes by how often strings occur: with it, repeating
            # an example is supplying a different multiset
            variant = 'perm'
        if variant in ('series', 'series-cat'):
            if any(x is not None and '\x00' in x for x in xs):
                variant = 'perm'
        if variant in ('bytes', 'bytes-dict'):
            try:
                [x.encode('utf-8') for x in xs if x is not None]
            except UnicodeEncodeError:
                variant = 'perm'
            if variant == 'bytes' and any(x is not None and x.startswith(
                    '\ufeff') for x in xs):
                # (utf-8-sig would swallow that character: other examples)
                variant = 'perm'
        before = random.getstate()
        if variant in ('series', 'series-cat'):
            import pandas as pd
            given = det_perm(xs, step['key'])
            if variant == 'series-cat':
                # a categorical column that declares categories no row uses
                vals = [x for x in given if x is not None]
                col = pd.Series(pd.Categorical(
                    given, categories=sorted(set(vals))
                    + ['UNUSED zz-9', '99:99']))
            else:
                col = pd.Series(given, dtype=object)
            variant = 'series'
            ok, r = call(rexpy.pdextract, col, seed=seed)
            slot = (si, seed, 'default')
            cdef = {'examples': xs, 'opts': {}, 'size': None}
            n_distinct = len(set(G.kept_examples(cdef)))
            sampling = False
        else:
            kw = G.extract_kwargs(c)
            kw['seed'] = seed
            fn_sampled = []
            if variant == 'function':
                given = check_function_for(xs, fn_sampled)
            else:
                given = variant_input(xs, variant, step['key'])
            if variant == 'bytes':
                kw['encoding'] = 'utf-8-sig'
            elif variant == 'bytes-dict':
                kw['encoding'] = 'utf-8'
            ok, r = call(rexpy.extract, given, **kw)
            if variant in ('bytes', 'bytes-dict'):
                given = xs          # the same multiset, in this order
            slot = (si, seed, 'opts')
            n_distinct = len(distinct)
            sampling = G.sampling_path(c, n_distinct)
            if variant == 'function':
                # compared with other function-form calls only: the
                # function samples by its own rule (and in sorted order)
                slot = (si, seed, 'function')
                given = sorted(set(x for x in xs if x is not None))
                sampling = bool(fn_sampled) or sampling
        after = random.getstate()
        out.label('variant:' + variant)
        if sampling:
            out.label('sampling-path')
        if seed is not None:
            out.label('seeded')
        if not ok:
            out.violate('never-raises', r.bucket(), r.detail())
            continue
        if seed is not None and before != after:
            detail = ('step %d: random.getstate() changed across extract('
                      'seed=%r), %d distinct examples, size=%r'
                      % (n, seed, n_distinct, s.get('size')))
            out.violate('rng-state-preserved',
                        'seeded+sampling' if sampling else 'seeded', detail)
        determined = (seed is not None) or not sampling
        if not determined:
            continue
        if variant != 'series' and slot not in first:
            # the Series form is compared with the default-option list form
            pass
        if slot not in first:
            if variant == 'series':
                # establish the default-option baseline from the list form
                st0 = random.getstate()
                okb, rb = call(rexpy.extract, [x for x in xs], seed=seed)
                random.setstate(st0)
                if okb:
                    first[slot] = (rb, 'list-form baseline', order_sig(xs))
            else:
                first[slot] = (r, n, order_sig(given))
                if n_distinct >= 3 and len(r) >= 2:
                    out.label('multi-expression')
        if slot in first:
            base, where, base_sig = first[slot]
            if (n_distinct >= 3 and len(base) >= 2) or (
                    seed is not None and sampling):
                out.nontrivial = True
            if r != base:
                detail = ('step %d (%s, seed=%r) gave %r but %s gave %r for '
                          'the same example multiset %r'
                          % (n, variant, seed, r, where, base, xs))
                if sampling and order_sig(given) != base_sig:
                    out.known_hit(F_ORDER_SAMPLE, detail)
                elif sampling:
                    out.violate('seeded-call-reproducible',
                                'same-order-sampling', detail)
                else:
                    out.violate('same-multiset-same-result',
                                'variant:' + variant, detail)
    return out


TECHNIQUE = ('stateful model-based property testing (generated histories of '
             'rexpy calls in one process) with metamorphic relations: '
             'permutation / input form / repetition / repeat-call equality, '
             'seeded reproducibility, RNG-state preservation')
LEVEL_TEXT = ('Generated histories of 2-8 rexpy calls sharing the regex memo '
              'and the global RNG; each extraction is compared with the '
              'model\'s remembered result for the same (multiset, options, '
              'seed), and the global RNG state is compared before/after '
              'seeded calls.')
LEVEL_NOTE = ('Schedules are sequential histories in one interpreter (plus '
              'the same extraction under four string-hash seeds in fresh '
              'interpreters); rexpy has no thread-level API to schedule. Trusted: Hypothesis, '
              'Python equality of result lists.')
