"""
C02 -- verification verdicts equal the documented meaning of each constraint;
totals, per-field counts, to_frame() and str() equal the counts of those
verdicts; adding a null-valued constraint changes no other verdict.
"""

import copy
import os
import json
import math
import re

from hypothesis import strategies as st

from tv.core import Outcome
from tv.gen import frames as F
from tv.gen import constraints as GC
from tv import refmodel as R
from tv.props.c01 import quiet

ID = 'C02'
BUDGET = {'quick': 8000, 'thorough': 250000}
RULE = ('G-frame DataFrames (1-3 columns, all recognised non-tz dtype kinds) '
        'x hand-built constraint sets placed relative to the data: bounds '
        'on / one step inside / one step outside the data extremes, at 0, '
        'and at values whose fuzzed image lands on the extreme, with '
        'precision in {absent, open, closed, fuzzy}; every sign class; '
        'lengths at len-1/len/len+1; max_nulls at nulls-1/nulls/nulls+1; '
        'no_duplicates true/false; allowed_values exact / minus one / plus '
        'one; rex lists; type single or list; null-valued constraints; a '
        'field the frame lacks; x epsilon in {None,0,0.01,0.5} x strict / '
        'sloppy x report all / fields. Oracle: reference evaluator over the '
        'plain Python values (tv/refmodel.py) + counting identities + '
        'metamorphic null-constraint insertion. Non-trivial: >=1 verdict '
        'decided by data (existing field, non-null constraint, >=1 non-null '
        'cell); distinct by case hash.')
RULE += ' ' + "Also: a second verify_df call on the same constraints dictionary object under the other type-checking mode and epsilon; the constraints handed over as a path whose file held a decoy set of exactly the same size a moment ago; a real column's extreme value placed a quarter of the way inside / outside the band between an integer bound and its fuzzed value; empty rex lists; rex lists with groups, numbered and named back-references, alternation and inline flags, incl. lists in which only back-referencing expressions match some values."
RULE += ' ' + 'Round 6: date bounds of date fields in the other spellings the loader reads (2020/01/05, 2020-1-5, T separator, one-digit hour); an object column holding only the numbers 0 and 1 (kind onum, tdda type string) under type constraints that allow bool.'
RULE += ' ' + 'Round 7: even-length object bool columns hold numpy.bool_ scalars.'
RULE += ' ' + 'Round 8: text-valued min / max bounds on object and string-dtype columns (closed, open and default precision; ordered as Python orders strings).'
ASSUMPTIONS = ['kinds are applied only to field types for which the format '
               'document gives them a meaning (DESIGN C02 "Not generated")',
               'timezone-aware columns are not generated here (C01 records '
               'that defect)']

KINDS = ['type', 'min', 'max', 'min_length', 'max_length', 'sign',
         'max_nulls', 'no_duplicates', 'allowed_values', 'rex']
C02_FRAME_KINDS = [k for k in F.ALL_KINDS if k not in F.TZ_KINDS]


@st.composite
def case_strategy(draw, tier):
    frame = draw(F.frame_strategy(kinds=C02_FRAME_KINDS, max_cols=3,
                                  allow_big=False))
    cons = draw(GC.respell_dates(draw(GC.constraint_set(
        frame, string_bounds=True))))
    epsilon = draw(st.sampled_from([None, 0, 0.01, 0.5]))
    reals = [c for c in frame['cols'] if c['kind'] == 'float64'
             and any(v is not None for v in c['cells'])]
    if reals and draw(st.integers(0, 7)) == 0:
        # the band between an integer-valued bound and its fuzzed value:
        # the column's extreme value is put strictly inside it (or just
        # outside), so only the exact tolerance bound*(1 +- epsilon) decides
        c = draw(st.sampled_from(reals))
        epsilon = draw(st.sampled_from([0.01, 0.5]))
        b = draw(st.sampled_from([3, 5, 7, 15, 101, 250, -3, -15, -7]))
        which = draw(st.sampled_from(['max', 'min']))
        inside = draw(st.sampled_from([True, True, False]))
        width = abs(b) * epsilon
        edge = (b + width) if which == 'max' else (b - width)
        target = edge - (width / 4 if which == 'max' else -width / 4)
        if not inside:
            target = edge + (width / 4 if which == 'max' else -width / 4)
        cells = []
        for v in c['cells']:
            if v is None or isinstance(v, str):
                cells.append(None)
            else:
                cells.append(float(b))
        if all(v is None for v in cells):
            cells[0] = float(b)
        cells[[i for (i, v) in enumerate(cells) if v is not None][-1]] = (
            target)
        c['cells'] = cells
        cons['fields'][c['name']] = {'type': 'real', which: b}
    flags = [c for c in frame['cols'] if c['kind'] == 'obool']
    if flags and draw(st.integers(0, 2)) == 0:
        # flags held as the numbers 0 and 1 in an object column: not
        # booleans, whatever they compare equal to
        c = draw(st.sampled_from(flags))
        c['kind'] = 'onum'
        c['cells'] = [None if v is None else int(v) for v in c['cells']]
        if draw(st.integers(0, 3)) == 0 and c['cells']:
            c['cells'][-1] = 2
        fc = {'type': draw(st.sampled_from(['bool', ['bool', 'int'],
                                            ['bool', 'string'], 'string',
                                            'bool', ['date', 'bool']]))}
        nnull = sum(1 for v in c['cells'] if v is None)
        if draw(st.booleans()):
            fc['max_nulls'] = draw(st.sampled_from([nnull, 0, nnull + 1]))
        if draw(st.booleans()):
            fc['no_duplicates'] = True
        cons['fields'][c['name']] = fc
    return {
        'frame': frame,
        'constraints': cons,
        'epsilon': epsilon,
        'type_checking': draw(st.sampled_from(['strict', 'sloppy'])),
        'report': draw(st.sampled_from(['all', 'fields'])),
    }


def strategy(tier):
    return case_strategy(tier)


def valid_constraints(cons, frame):
    if not isinstance(cons, dict) or set(cons.keys()) != {'fields'}:
        return False
    cols = {c['name']: c for c in frame['cols']}
    for (fname, fc) in cons['fields'].items():
        if not isinstance(fc, dict) or not fc:
            return False
        col = cols.get(fname)
        atype = None
        if col is not None:
            atype = R.actual_type(col['kind'], F.py_values(col))
        for (k, v) in fc.items():
            if k not in KINDS:
                return False
            if (col is not None and col['kind'] == 'onum'
                    and k not in ('type', 'max_nulls', 'no_duplicates')):
                return False
            if v is None:
                if col is None:
                    return False      # null constraint on a missing field
                continue
            if k == 'type':
                vs = v if isinstance(v, list) else [v]
                if not vs or not all(t in GC.TYPES for t in vs):
                    return False
                if col is not None and GC.unspecified_type_case(v, atype):
                    return False
            elif k in ('min', 'max'):
                b, p = R.split_bound(v)
                if isinstance(v, dict) and (set(v) != {'value', 'precision'}
                                            or p not in ('open', 'closed',
                                                         'fuzzy')):
                    return False
                if col is None:
                    if not isinstance(b, (int, float)):
                        return False
                    continue
                if atype == 'date':
                    if fc.get('type') != 'date':
                        return False
                    try:
                        R.parse_date_bound(b)
                    except Exception:
                        return False
                elif atype in ('int', 'real', 'bool'):
                    if fc.get('type') == 'date':
                        return False
                    if not isinstance(b, (int, float)) or (
                            isinstance(b, float) and (math.isnan(b)
                                                      or math.isinf(b))):
                        return False
                elif atype == 'string' and col['kind'] in ('ostr', 'string'):
                    if (not isinstance(b, str) or p == 'fuzzy'
                            or fc.get('type') == 'date' or not all(
                                isinstance(x, str)
                                for x in F.py_values(col) if x is not None)):
                        return False
                else:
                    return False
            elif k == 'sign':
                if v not in GC.SIGNS:
                    return False
                if col is not None and atype not in ('int', 'real', 'bool'):
                    return False
            elif k in ('min_length', 'max_length'):
                if isinstance(v, bool) or not isinstance(v, int) or v < 0:
                    return False
                if col is not None and atype != 'string':
                    return False
            elif k == 'max_nulls':
                if isinstance(v, bool) or not isinstance(v, int) or v < 0:
                    return False
            elif k == 'no_duplicates':
                if v not in (True, False):
                    return False
            elif k == 'allowed_values':
                if not isinstance(v, list) or not all(isinstance(x, str)
                                                      for x in v):
                    return False
                if col is not None and atype != 'string':
                    return False
            elif k == 'rex':
                if not isinstance(v, list):
                    return False
                for r in v:
                    try:
                        re.compile(r, R.FLAGS)
                    except Exception:
                        return False
                if col is not None and atype != 'string':
                    return False
    return True


def valid(case):
    fr = case.get('frame', {})
    return (F.valid_frame(fr)
            and not any(c['kind'] in F.TZ_KINDS for c in fr['cols'])
            and valid_constraints(case.get('constraints'), fr)
            and case.get('epsilon') in (None, 0, 0.01, 0.5)
            and case.get('type_checking') in ('strict', 'sloppy')
            and case.get('report') in ('all', 'fields'))


def expected_verdicts(case):
    cols = {c['name']: (c['kind'], F.py_values(c))
            for c in case['frame']['cols']}
    eps = 0.0 if case['epsilon'] is None else case['epsilon']
    exp = {}
    for (fname, fc) in case['constraints']['fields'].items():
        exp[fname] = {}
        for (k, v) in fc.items():
            exp[fname][k] = R.verdict(k, v, cols.get(fname), eps,
                                      case['type_checking'])
    return exp


def check_result(out, v, exp, case, tag=''):
    """Compare a Verification object with the expected verdicts."""
    got = {f: dict(fr.items()) for (f, fr) in v.fields.items()}
    cols = {c['name']: c for c in case['frame']['cols']}
    if set(got) != set(exp):
        out.violate('verdicts', 'field-set' + tag,
                    'fields reported %r, constrained %r'
                    % (sorted(got), sorted(exp)))
        return False
    ok = True
    for f in exp:
        if set(got[f]) != set(exp[f]):
            out.violate('verdicts', 'kind-set' + tag,
                        'field %r: kinds reported %r, constrained %r'
                        % (f, sorted(got[f]), sorted(exp[f])))
            ok = False
            continue
        for k in exp[f]:
            g = got[f][k]
            if g is None or bool(g) != exp[f][k]:
                col = cols.get(f)
                cv = case['constraints']['fields'][f][k]
                atype = (R.actual_type(col['kind'], F.py_values(col))
                         if col else 'missing')
                out.violate(
                    'verdicts', '%s:%s:%s%s' % (
                        k, atype, 'should-pass' if exp[f][k]
                        else 'should-fail', tag),
                    'field %r (%s) %s=%r: verify_df says %r, documented '
                    'meaning gives %r; data %r; epsilon=%r %s'
                    % (f, col['kind'] if col else 'missing', k, cv, g,
                       exp[f][k], col['cells'][:12] if col else None,
                       case['epsilon'], case['type_checking']))
                ok = False
    return ok


def check_counts(out, v, exp, case):
    P = sum(1 for f in exp for k in exp[f] if exp[f][k])
    Fl = sum(1 for f in exp for k in exp[f] if not exp[f][k])
    if (v.passes, v.failures) != (P, Fl):
        out.violate('counts', 'totals',
                    'passes/failures %r/%r, verdict counts %r/%r'
                    % (v.passes, v.failures, P, Fl))
    for f in exp:
        p = sum(1 for k in exp[f] if exp[f][k])
        fl = len(exp[f]) - p
        fr = v.fields[f]
        if (fr.passes, fr.failures) != (p, fl):
            out.violate('counts', 'per-field',
                        'field %r passes/failures %r/%r, verdicts %r/%r'
                        % (f, fr.passes, fr.failures, p, fl))
    # tabular form
    ok, tf = quiet(v.to_frame)
    if not ok:
        out.violate('never-raises', tf.bucket(), tf.detail())
    else:
        import pandas as pd
        if list(tf['field']) != list(v.fields.keys()):
            out.violate('to_frame', 'rows', 'rows %r vs fields %r'
                        % (list(tf['field']), list(v.fields.keys())))
        else:
            kinds_used = set(k for f in exp for k in exp[f])
            extra = set(tf.columns) - {'field', 'failures', 'passes'}
            if extra != kinds_used:
                out.violate('to_frame', 'columns',
                            'kind columns %r vs kinds present %r'
                            % (sorted(extra), sorted(kinds_used)))
            for i, f in enumerate(tf['field']):
                p = sum(1 for k in exp[f] if exp[f][k])
                fl = len(exp[f]) - p
                if (int(tf['passes'][i]), int(tf['failures'][i])) != (p, fl):
                    out.violate('to_frame', 'counts',
                                'row %r passes/failures %r/%r vs %r/%r'
                                % (f, tf['passes'][i], tf['failures'][i],
                                   p, fl))
                for k in extra & kinds_used:
                    cell = tf[k][i]
                    if k in exp[f]:
                        if pd.isnull(cell) or bool(cell) != exp[f][k]:
                            out.violate('to_frame', 'cell',
                                        '%r.%s is %r, verdict %r'
                                        % (f, k, cell, exp[f][k]))
                    elif not pd.isnull(cell):
                        out.violate('to_frame', 'absent-cell',
                                    '%r.%s is %r but no such constraint'
                                    % (f, k, cell))
    # text form
    ok, text = quiet(str, v)
    if not ok:
        out.violate('never-raises', text.bucket(), text.detail())
        return
    if ('Constraints passing: %d' % P) not in text or (
            'Constraints failing: %d' % Fl) not in text:
        out.violate('str', 'summary', 'summary lines do not show %d/%d: %r'
                    % (P, Fl, text[-120:]))
    for f in exp:
        p = sum(1 for k in exp[f] if exp[f][k])
        fl = len(exp[f]) - p
        line = '%s: %d failure%s  %d pass%s' % (
            f, fl, '' if fl == 1 else 's', p, '' if p == 1 else 'es')
        should_show = case['report'] == 'all' or fl > 0
        present = any(ln.startswith(line) for ln in text.split('\n\n'))
        if should_show and not present:
            out.violate('str', 'field-line-missing',
                        'expected a line starting %r in %r' % (line, text))
        if not should_show and any(ln.startswith(f + ': ') and 'failure' in ln
                                   for ln in text.split('\n\n')
                                   ) and '\n' not in f:
            # a field without failures must not be listed in 'fields' mode
            # (skip names that are prefixes of other names' lines)
            others = [g for g in exp if g != f and g.startswith(f + ': ')]
            if not others:
                out.violate('str', 'field-line-unexpected',
                            'field %r has no failures but is listed' % f)


def run(case, ctx):
    from tdda.constraints import verify_df
    out = Outcome()
    df = F.build_frame(case['frame'])
    exp = expected_verdicts(case)
    cols = {c['name']: c for c in case['frame']['cols']}
    for f in exp:
        col = cols.get(f)
        if col is None:
            out.label('missing-field')
            continue
        atype = R.actual_type(col['kind'], F.py_values(col))
        has_data = any(x is not None for x in col['cells'])
        for k in exp[f]:
            cv = case['constraints']['fields'][f][k]
            if cv is None:
                out.label('null-valued:' + k)
                continue
            lb = '%s:%s' % (k, 'sat' if exp[f][k] else 'fail')
            if k in ('min', 'max'):
                lb += ':' + str(R.split_bound(cv)[1])
            out.label(lb)
            if has_data:
                out.nontrivial = True
    out.label('eps:%s' % case['epsilon'], case['type_checking'],
              'report:' + case['report'])
    kw = dict(epsilon=case['epsilon'], type_checking=case['type_checking'],
              report=case['report'], repair=False)
    cons_obj = copy.deepcopy(case['constraints'])
    ok, v = quiet(verify_df, df.copy(), cons_obj, **kw)
    if not ok:
        out.violate('never-raises', v.bucket(), v.detail())
        return out
    if check_result(out, v, exp, case):
        check_counts(out, v, exp, case)
    # a history of two calls: the SAME in-memory constraints object is
    # verified again under the other type-checking mode (and other epsilon);
    # what the first call did must not leak into the second
    other = dict(case, type_checking=('strict' if case['type_checking']
                                      == 'sloppy' else 'sloppy'),
                 epsilon={None: 0.5, 0: 0.01, 0.01: 0, 0.5: None}[
                     case['epsilon']])
    exp_o = expected_verdicts(other)
    ok, vo = quiet(verify_df, df.copy(), cons_obj, epsilon=other['epsilon'],
                   type_checking=other['type_checking'],
                   report=case['report'], repair=False)
    if not ok:
        out.violate('never-raises', vo.bucket(), 'second call on the same '
                    'constraints object: ' + vo.detail())
    else:
        check_result(out, vo, exp_o, other, tag=':second-call-same-dict')
    # a history through a file: another constraint set of the same size is
    # written to one path and used, the file is rewritten in place with this
    # set, and the path is used again (what was read before must not stick)
    if len(json.dumps(case['constraints'], sort_keys=True)) % 3 == 0:
        out.label('history:constraints-file-rewritten-in-place')
        shared = os.path.join(ctx.scratch, 'shared.tdda')
        text = json.dumps(case['constraints'], ensure_ascii=False)
        size = len(text.encode('utf-8'))
        decoy = '{"fields": {}}'
        decoy += ' ' * max(0, size - len(decoy))
        with open(shared, 'w', encoding='utf-8') as f:
            f.write(decoy)
        quiet(verify_df, df.copy(), shared, **kw)
        with open(shared, 'w', encoding='utf-8') as f:
            f.write(text)
        ok, vp = quiet(verify_df, df.copy(), shared, **kw)
        if not ok:
            out.violate('never-raises', vp.bucket(), 'constraints given as '
                        'a path: ' + vp.detail())
        else:
            check_result(out, vp, exp, case, tag=':path-after-rewrite')
    # metamorphic: add one null-valued constraint of a kind not yet present
    for f in exp:
        if f not in cols:
            continue
        missing = [k for k in KINDS if k not in exp[f]]
        if not missing:
            continue
        k = missing[len(f) % len(missing)]
        c2 = copy.deepcopy(case['constraints'])
        c2['fields'][f][k] = None
        ok, v2 = quiet(verify_df, df.copy(), c2, **kw)
        if not ok:
            out.violate('null-constraint-insertion', v2.bucket(),
                        'adding %s: null to field %r: %s'
                        % (k, f, v2.detail()))
            break
        exp2 = copy.deepcopy(exp)
        exp2[f][k] = True
        if check_result(out, v2, exp2, dict(case, constraints=c2),
                        tag=':after-null-insertion'):
            if (v2.passes, v2.failures) != (v.passes + 1, v.failures):
                out.violate('null-constraint-insertion', 'counts',
                            'passes %r -> %r, failures %r -> %r after adding '
                            'a null %s' % (v.passes, v2.passes, v.failures,
                                           v2.failures, k))
        # the same relation with the default type repair switched on (no
        # reference for the verdicts themselves there: repair may convert
        # the column): every null kind in turn, no other verdict moves
        kwr = dict(kw, repair=True)
        okr, vr = quiet(verify_df, df.copy(), copy.deepcopy(
            case['constraints']), **kwr)
        if okr:
            base = {ff: dict(fr.items()) for (ff, fr) in vr.fields.items()}
            for k2 in missing[:4]:
                c3 = copy.deepcopy(case['constraints'])
                c3['fields'][f][k2] = None
                ok3, v3 = quiet(verify_df, df.copy(), c3, **kwr)
                if not ok3:
                    out.violate('null-constraint-insertion', v3.bucket(),
                                'repair on, adding %s: null to field %r: %s'
                                % (k2, f, v3.detail()))
                    break
                got3 = {ff: {kk: vv for (kk, vv) in fr.items()
                             if not (ff == f and kk == k2)}
                        for (ff, fr) in v3.fields.items()}
                if {ff: {kk: bool(vv) for (kk, vv) in fr.items()}
                        for (ff, fr) in got3.items()} != {
                        ff: {kk: bool(vv) for (kk, vv) in fr.items()}
                        for (ff, fr) in base.items()}:
                    out.violate('null-constraint-insertion',
                                'repair-on:other-verdict-changed:' + k2,
                                'with repair on, adding %s: null to field '
                                '%r changed another verdict: %r -> %r'
                                % (k2, f, base, got3))
                    break
        break
    return out


TECHNIQUE = ('property-based testing (Hypothesis) against a reference model '
             'of the documented constraint semantics over plain Python '
             'values, plus counting identities and a metamorphic relation')
LEVEL_TEXT = ('Generated (DataFrame, constraint set) pairs with constraint '
              'values built on and next to every boundary of the generated '
              'data; each verdict of verify_df is compared with an '
              'independent evaluator written from the format document, and '
              'totals / per-field counts / to_frame() / str() with the counts '
              'of those verdicts.')
LEVEL_NOTE = ('Trusted: the reference evaluator tv/refmodel.py (about 150 '
              'lines, same IEEE operations as the documented fuzzy formula), '
              'pandas frame construction. Domain restricted to kinds on '
              'field types for which the format document defines them.')
