"""
C09 -- .tdda files round-trip: same text, same verdicts, unknown keys ignored.
"""

import copy
import io
import json
import os
import sys

from hypothesis import strategies as st

from tv.core import Outcome, call
from tv.gen import frames as F
from tv.gen import constraints as GC
from tv.gen import text as T
from tv import refmodel as R
from tv.props.c01 import quiet
from tv.props import c02

ID = 'C09'
BUDGET = {'quick': 6000, 'thorough': 200000}
RULE = ('Constraint sets in the documented format: (a) hand-built by the C02 '
        'grammar extended with date-valued bounds in every written form '
        '(date, date-time, microseconds, T separator) with and without '
        'precision, floats needing 17 digits, unicode field names and '
        'allowed values, regular expressions full of backslashes and both '
        'quote characters, type lists, null-valued constraints, optional '
        'creation_metadata; (b) discovered from a generated frame (with and '
        'without rex). Each with a frame whose columns match, 1-4 write/load '
        'cycles, and an unknown-key injection (unknown kinds, #-keys). '
        'Oracle: text fixpoint across cycles; text is valid JSON, UTF-8, '
        'one final newline, no trailing whitespace; verdicts equal for '
        'dict / path / json.loads(text) / reloaded to_dict(); unknown keys '
        'change neither text nor verdicts. Non-trivial: a date-valued or '
        'precision-qualified bound or a non-ASCII / escape-bearing string, '
        'and >=1 verdict decided by data; distinct by case hash.')
RULE += ' ' + "Also: the serialised text must say what the set given says (same fields in order, same kinds, same values, date bounds compared as instants); the file rewritten in place after a same-size decoy was loaded from the same path; the caller's dictionary unchanged after loading and verifying; relation names (lt, gte, eq ...) among the unknown kinds; microsecond values that are not exact binary fractions."
RULE += ' ' + 'Round 7: a copy of the written file loaded from another path must serialise to the identical text (recorded tddafile included); unknown kinds include other spellings of standard kinds (max-length, no-duplicates, MAX, maxLength ...).'
RULE += ' ' + 'Round 8: date bounds of hand-written sets are also judged from the written value against the data (reference model), not only compared between input forms; field names in decomposed Unicode form.'
ASSUMPTIONS = ['the text written with to_json(tddafile=path) is compared for '
               'write/load cycles on the same path and for a copy of the '
               'file loaded from another path (the recorded name travels '
               'with the file)',
               '+-inf bounds are not generated (not JSON)']

NASTY_REX = [r'^\\d+"$', r"^it's$", r'^\\\\$', r'^[\\"\']+$', r'^a\\.b$',
             r'^\\w+\\s\\w+$', r'^"[^"]*"$', r'^.*\\\\n$', r'^\\u00e9+$',
             r'^[^\\W\\d_]+$', r'^é+$', r'^中文$', '^\\t$', r'^\\/$', r'^\\x41$',
             r'^[A-Z]{2,}$', r'^[a-z]+[!,]$', r'^\\d{1,}$', r'^x{0,}[,]$']

C09_KINDS = [k for k in F.ALL_KINDS if k not in F.TZ_KINDS]


def date_spellings(d):
    d = R.as_dt(d)
    day = '%04d-%02d-%02d' % (d.year, d.month, d.day)
    hms = '%02d:%02d:%02d' % (d.hour, d.minute, d.second)
    out = [day + ' ' + hms, day + 'T' + hms,
           day + ' ' + hms + '.%06d' % d.microsecond]
    if (d.hour, d.minute, d.second, d.microsecond) == (0, 0, 0, 0):
        out.append(day)
    return out


@st.composite
def enrich(draw, cons, frame):
    """Add the C09-specific shapes to a C02-style constraint set."""
    cols = {c['name']: c for c in frame['cols']}
    for (f, fc) in cons['fields'].items():
        col = cols.get(f)
        if col is None:
            continue
        atype = R.actual_type(col['kind'], F.py_values(col))
        for k in ('min', 'max'):
            if k in fc and fc[k] is not None:
                b, p = R.split_bound(fc[k])
                if atype == 'date':
                    b = draw(st.sampled_from(date_spellings(
                        R.parse_date_bound(b))))
                    p = draw(st.sampled_from([None, None, 'open', 'closed',
                                              'fuzzy']))
                elif atype == 'real' and draw(st.integers(0, 3)) == 0:
                    b = draw(st.sampled_from([0.1 + 0.2, 1 / 3, 2.5e-308,
                                              1.7976931348623157e308,
                                              123456789.12345679, -1e-7]))
                fc[k] = b if p is None else {'value': b, 'precision': p}
        if atype == 'string':
            if 'rex' in fc and fc['rex'] is not None and draw(st.booleans()):
                fc['rex'] = draw(st.lists(st.sampled_from(NASTY_REX),
                                          min_size=1, max_size=3,
                                          unique=True))
            if 'allowed_values' in fc and fc['allowed_values'] is not None:
                if draw(st.booleans()):
                    fc['allowed_values'] = sorted(set(
                        fc['allowed_values'] + draw(st.lists(
                            T.a_text(0, 6).map(
                                lambda s: s.replace('\x00', '')),
                            max_size=3))))
    if draw(st.integers(0, 3)) == 0:
        cons['creation_metadata'] = draw(st.fixed_dictionaries({}, optional={
            'local_time': st.just('2024-01-02T03:04:05'),
            'utc_time': st.just('2024-01-02T03:04:05+00:00'),
            'creator': st.sampled_from(['TDDA 2.0', 'é"\\']),
            'host': st.just('example.host'),
            'user': st.sampled_from(['someone', '名前', '']),
            'n_records': st.sampled_from([0, 0, 1, 37, 100]),
            'n_selected': st.sampled_from([0, 5]),
            'source': st.sampled_from(['/data/x.csv', 'C:\\data\\x.csv']),
        }))
    return cons


@st.composite
def case_strategy(draw, tier):
    frame = draw(F.frame_strategy(kinds=C09_KINDS, max_cols=3,
                                  allow_big=False))
    mode = draw(st.sampled_from(['hand', 'hand', 'discovered',
                                 'discovered-rex']))
    cons = None
    if mode == 'hand':
        cons = draw(GC.constraint_set(frame))
        cons = draw(enrich(cons, frame))
    return {
        'frame': frame,
        'mode': mode,
        'constraints': cons,
        'cycles': draw(st.integers(1, 4)),
        'extras': draw(st.lists(st.sampled_from([
            ['frobnicate', 3], ['custom_kind', {'value': 1}],
            ['#comment', 'free text'], ['# note', [1, 2]],
            ['#', None], ['Min', 0], ['minimum', 5],
            # names of multi-field relations are not field constraint kinds
            ['lt', 5], ['gte', 1], ['eq', 'x'], ['lte', None], ['gt', 0],
            ['constraint', 1], ['multi_field', 2],
            # other spellings of standard kinds are other kinds
            ['max-length', 0], ['no-duplicates', True], ['max-nulls', 0],
            ['min-length', 99], ['allowed-values', []], ['MAX', -10**9],
            ['max length', 0], ['maxLength', 0]]),
            min_size=1, max_size=3, unique_by=lambda kv: kv[0])),
    }


def strategy(tier):
    return case_strategy(tier)


def valid_c09_constraints(cons, frame):
    if not isinstance(cons, dict) or 'fields' not in cons:
        return False
    if set(cons) - {'fields', 'creation_metadata'}:
        return False
    md = cons.get('creation_metadata', {})
    if not isinstance(md, dict) or any(
            not isinstance(v, (str, int)) for v in md.values()):
        return False
    # same domain as C02 except that a date bound may carry a precision
    relaxed = copy.deepcopy({'fields': cons['fields']})
    cols = {c['name']: c for c in frame['cols']}
    for (f, fc) in relaxed['fields'].items():
        if not isinstance(fc, dict):
            return False
        col = cols.get(f)
        if col is None:
            continue
        atype = R.actual_type(col['kind'], F.py_values(col))
        if atype == 'date':
            for k in ('min', 'max'):
                if isinstance(fc.get(k), dict):
                    if set(fc[k]) != {'value', 'precision'} or (
                            fc[k]['precision'] not in ('open', 'closed',
                                                       'fuzzy')):
                        return False
                    fc[k] = fc[k]['value']
                    if fc[k] is None:
                        return False
    return c02.valid_constraints(relaxed, frame)


def valid(case):
    fr = case.get('frame', {})
    if not F.valid_frame(fr) or any(c['kind'] in F.TZ_KINDS
                                    for c in fr['cols']):
        return False
    if case.get('mode') not in ('hand', 'discovered', 'discovered-rex'):
        return False
    if case['mode'] == 'hand' and not valid_c09_constraints(
            case.get('constraints'), fr):
        return False
    ex = case.get('extras')
    if not isinstance(ex, list) or not ex:
        return False
    for kv in ex:
        if (not isinstance(kv, list) or len(kv) != 2
                or not isinstance(kv[0], str)
                or kv[0] in c02.KINDS or kv[0] in ('transform',)):
            return False
    return isinstance(case.get('cycles'), int) and 1 <= case['cycles'] <= 4


def verdicts_of(v):
    return {f: {k: (None if x is None else bool(x)) for (k, x) in fr.items()}
            for (f, fr) in v.fields.items()}


def strip_tddafile(text):
    d = json.loads(text)
    md = d.get('creation_metadata')
    if md is not None:
        md.pop('tddafile', None)
        if not md:
            d.pop('creation_metadata')
    return json.dumps(d, sort_keys=False, ensure_ascii=False)


def check_text(out, text, where):
    try:
        json.loads(text)
    except ValueError as e:
        out.violate('valid-json', 'parse', '%s: %s; text %r'
                    % (where, e, text[:300]))
        return False
    try:
        text.encode('utf-8')
    except UnicodeEncodeError as e:
        out.violate('valid-utf8', 'encode', '%s: %s' % (where, e))
        return False
    if not text.endswith('\n') or text.endswith('\n\n'):
        out.violate('text-shape', 'final-newline', '%s: ends %r'
                    % (where, text[-5:]))
    for ln in text.split('\n'):
        if ln != ln.rstrip():
            out.violate('text-shape', 'trailing-whitespace',
                        '%s: line %r' % (where, ln[-40:]))
            break
    return True


def same_value(kind, a, b, is_date):
    """Is b (as serialised) the same constraint value as a (as given)?"""
    if a is None or b is None:
        return a is None and b is None
    if kind in ('min', 'max'):
        (av, ap), (bv, bp) = R.split_bound(a), R.split_bound(b)
        if ap != bp:
            return False
        if is_date and isinstance(av, str):
            try:
                return (isinstance(bv, str) and R.parse_date_bound(av)
                        == R.parse_date_bound(bv))
            except Exception:
                return av == bv
        a, b = av, bv
    if kind == 'type':
        return ([a] if isinstance(a, str) else list(a)) == (
            [b] if isinstance(b, str) else list(b))
    if isinstance(a, bool) or isinstance(b, bool):
        return a is b
    if isinstance(a, (int, float)) and isinstance(b, (int, float)):
        return a == b
    return type(a) == type(b) and a == b


def check_content(out, cons, text, case):
    """The serialised set says what the set given says: same fields in the
    same order, same kinds, same values (date bounds compared as instants,
    a one-element type list and a bare type name taken as equal)."""
    gotmd = json.loads(text).get('creation_metadata', {})
    for (k, v) in (cons.get('creation_metadata') or {}).items():
        if k != 'tddafile' and gotmd.get(k, '<absent>') != v:
            out.violate('content-preserved', 'creation_metadata',
                        'creation_metadata %s given as %r, serialised as %r'
                        % (k, v, gotmd.get(k, '<absent>')))
    got = json.loads(text).get('fields', {})
    want = cons['fields']
    if list(got) != list(want):
        out.violate('content-preserved', 'fields',
                    'fields given %r, serialised %r' % (list(want), list(got)))
        return
    cols = {c['name']: c for c in case['frame']['cols']}
    for (f, fc) in want.items():
        known = {k: v for (k, v) in fc.items() if k in c02.KINDS}
        if set(got[f]) != set(known):
            out.violate('content-preserved', 'kinds',
                        'field %r: kinds given %r, serialised %r'
                        % (f, sorted(known), sorted(got[f])))
            continue
        col = cols.get(f)
        is_date = fc.get('type') == 'date' or (
            col is not None and R.actual_type(
                col['kind'], F.py_values(col)) == 'date')
        for (k, v) in known.items():
            if not same_value(k, v, got[f][k], is_date):
                out.violate('content-preserved', 'value:' + k,
                            'field %r: %s given as %r, serialised as %r'
                            % (f, k, v, got[f][k]))


def run(case, ctx):
    from tdda.constraints import verify_df, discover_df
    from tdda.constraints.base import DatasetConstraints
    out = Outcome()
    df = F.build_frame(case['frame'])
    out.label('mode:' + case['mode'])
    if case['mode'] == 'hand':
        cons = copy.deepcopy(case['constraints'])
    else:
        ok, dc = quiet(discover_df, df.copy(),
                       inc_rex=(case['mode'] == 'discovered-rex'))
        if not ok or dc is None:
            out.label('nothing-discovered')
            return out
        ok, cons = quiet(dc.to_dict)
        if not ok:
            out.violate('never-raises', cons.bucket(), cons.detail())
            return out
        cons = json.loads(json.dumps(cons, default=str))
    # non-triviality
    interesting = False
    text_probe = json.dumps(cons, ensure_ascii=True)
    if '\\u' in text_probe or '\\\\' in text_probe or '\\"' in text_probe:
        interesting = True
    for fc in cons['fields'].values():
        for (k, v) in fc.items():
            if isinstance(v, dict) or (fc.get('type') == 'date'
                                       and k in ('min', 'max')):
                interesting = True
    has_data = any(v is not None for c in case['frame']['cols']
                   for v in c['cells'])
    out.nontrivial = interesting and has_data and bool(cons['fields'])

    d = ctx.fresh_dir()
    path = os.path.join(d, 'c.tdda')

    def load_dict(x):
        D = DatasetConstraints()
        D.initialize_from_dict(copy.deepcopy(x))
        return D

    ok, D1 = quiet(load_dict, cons)
    if not ok:
        out.violate('never-raises', D1.bucket(), 'loading dict: '
                    + D1.detail())
        return out
    ok, t1 = quiet(D1.to_json, tddafile=path)
    if not ok:
        out.violate('never-raises', t1.bucket(), 'to_json: ' + t1.detail())
        return out
    if not check_text(out, t1, 'first serialisation'):
        return out
    check_content(out, cons, t1, case)
    texts = [t1]
    D = D1
    for i in range(case['cycles']):
        with open(path, 'w', encoding='utf-8') as f:
            f.write(texts[-1])
        ok, D = quiet(DatasetConstraints, loadpath=path)
        if not ok:
            out.violate('never-raises', D.bucket(),
                        'loading cycle %d: %s' % (i + 1, D.detail()))
            return out
        ok, t = quiet(D.to_json)
        if not ok:
            out.violate('never-raises', t.bucket(), t.detail())
            return out
        texts.append(t)
        if t != t1:
            import difflib
            diff = '\n'.join(list(difflib.unified_diff(
                t1.split('\n'), t.split('\n'), lineterm='', n=0))[:12])
            out.violate('text-fixpoint', 'cycle',
                        'text after load/write cycle %d differs from the '
                        'first text:\n%s' % (i + 1, diff))
            break
    # the same path held another constraint set of the same size a moment
    # ago, and it was loaded then: what is loaded now is what the file says
    decoy = '{"fields": {}}'
    decoy += ' ' * max(0, len(t1.encode('utf-8')) - len(decoy))
    with open(path, 'w', encoding='utf-8') as f:
        f.write(decoy)
    quiet(DatasetConstraints, loadpath=path)
    quiet(verify_df, df.copy(), path, repair=False)
    with open(path, 'w', encoding='utf-8') as f:
        f.write(t1)
    ok, Dr = quiet(DatasetConstraints, loadpath=path)
    if ok:
        ok, tr = quiet(Dr.to_json)
        if ok and tr != t1:
            out.violate('text-fixpoint', 'file-rewritten-in-place',
                        'the file was rewritten in place and loaded again: '
                        'serialises as %r, the file says %r'
                        % (tr[:300], t1[:300]))
    # the caller's dictionary is the caller's: loading it leaves it as it was
    mine = copy.deepcopy(cons)
    quiet(DatasetConstraints().initialize_from_dict, mine)
    quiet(verify_df, df.copy(), mine, repair=False)
    if json.dumps(mine, sort_keys=True, default=str) != json.dumps(
            cons, sort_keys=True, default=str):
        out.violate('dict-form-behaves-the-same', 'dictionary-modified',
                    'a dictionary handed to initialize_from_dict / verify_df '
                    'was changed: %r -> %r' % (cons, mine))
    # different path: everything but creation_metadata.tddafile
    path2 = os.path.join(d, 'moved.tdda')
    with open(path2, 'w', encoding='utf-8') as f:
        f.write(t1)
    ok, Dm = quiet(DatasetConstraints, loadpath=path2)
    if ok:
        ok, tm = quiet(Dm.to_json)
        if ok and strip_tddafile(tm) != strip_tddafile(t1):
            out.violate('text-fixpoint', 'other-path',
                        'reloaded from another path: %r vs %r'
                        % (strip_tddafile(tm)[:300],
                           strip_tddafile(t1)[:300]))
        elif ok and tm != t1:
            # the recorded name of the file travels with the file (copied,
            # renamed, reached by another path): it is part of the text
            out.violate('text-fixpoint', 'other-path:tddafile',
                        'the copy at %s serialises with %r, the file says %r'
                        % (path2, json.loads(tm).get('creation_metadata'),
                           json.loads(t1).get('creation_metadata')))
    # verdict equality
    kw = dict(repair=False)
    variants = [('dict', copy.deepcopy(cons)), ('path', path),
                ('json.loads(text)', json.loads(t1))]
    ok, dd = quiet(D.to_dict)
    if ok:
        variants.append(('reloaded.to_dict()',
                         json.loads(json.dumps(dd, default=str))))
    # in memory a list of allowed types may just as well be a tuple
    ct = copy.deepcopy(cons)
    had_list = False
    for fc in ct['fields'].values():
        if isinstance(fc.get('type'), list):
            fc['type'] = tuple(fc['type'])
            had_list = True
    if had_list:
        variants.append(('dict-with-tuple-types', ct))
    base = None
    for (name, c) in variants:
        ok, v = quiet(verify_df, df.copy(), c, **kw)
        if not ok:
            out.violate('never-raises', v.bucket(),
                        'verify_df with %s: %s' % (name, v.detail()))
            continue
        vd = verdicts_of(v)
        if base is None:
            base = (name, vd, v.passes, v.failures)
        elif vd != base[1] or (v.passes, v.failures) != base[2:]:
            diffs = [(f, k, base[1].get(f, {}).get(k), vd.get(f, {}).get(k))
                     for f in set(vd) | set(base[1])
                     for k in set(vd.get(f, {})) | set(base[1].get(f, {}))
                     if base[1].get(f, {}).get(k) != vd.get(f, {}).get(k)]
            kinds = sorted(set(k for (_, k, _, _) in diffs))
            out.violate('same-verdicts', '%s:%s' % (name, '+'.join(kinds)),
                        'verdicts with %s differ from %s: %r'
                        % (name, base[0], diffs[:5]))
    # ... and they are the verdicts of the set that was written: date bounds
    # (the values a loader has to convert) judged from the written values
    if base is not None and case['mode'] == 'hand':
        colv = {c['name']: (c['kind'], F.py_values(c))
                for c in case['frame']['cols']}
        for (fname, fc) in cons['fields'].items():
            col = colv.get(fname)
            if (col is None or fc.get('type') != 'date'
                    or R.actual_type(*col) != 'date'):
                continue
            for k in ('min', 'max'):
                got = base[1].get(fname, {}).get(k)
                if fc.get(k) is None or got is None:
                    continue
                want = R.verdict(k, fc[k], col, 0.0, 'sloppy')
                out.label('date-bound-judged-from-written-value')
                if bool(got) != want:
                    out.violate('same-verdicts', 'written-meaning:' + k,
                                'field %r %s=%r: verdict %r with every '
                                'input form, the written bound and the data '
                                '%r give %r' % (fname, k, fc[k], got,
                                                col[1][:6], want))
    # unknown kinds and #-keys
    c2 = copy.deepcopy(cons)
    for fc in c2['fields'].values():
        for (k, v) in case['extras']:
            fc[k] = copy.deepcopy(v)
    c2['#top'] = 'ignored'
    ok, Dx = quiet(load_dict, c2)
    if not ok:
        out.violate('unknown-keys-ignored', Dx.bucket(), Dx.detail())
        return out
    ok, tx = quiet(Dx.to_json, tddafile=path)
    if not ok:
        out.violate('unknown-keys-ignored', tx.bucket(), tx.detail())
    elif tx != t1:
        out.violate('unknown-keys-ignored', 'text',
                    'text changes when unknown keys %r are added'
                    % ([kv[0] for kv in case['extras']],))
    ok, vx = quiet(verify_df, df.copy(), c2, **kw)
    if not ok:
        out.violate('unknown-keys-ignored', vx.bucket(), vx.detail())
    elif base is not None:
        vd = verdicts_of(vx)
        vd = {f: {k: x for (k, x) in fr.items() if x is not None}
              for (f, fr) in vd.items()}
        b = {f: {k: x for (k, x) in fr.items() if x is not None}
             for (f, fr) in base[1].items()}
        if vd != b or (vx.passes, vx.failures) != base[2:]:
            out.violate('unknown-keys-ignored', 'verdicts',
                        'verdicts change when unknown keys are added: %r vs '
                        '%r' % (vd, b))
    return out


TECHNIQUE = ('property-based testing (Hypothesis): round-trip fixpoint over '
             'generated write/load cycles, verdict differential across the '
             'four input forms, metamorphic unknown-key injection')
LEVEL_TEXT = ('Generated constraint sets (hand-built from the documented '
              'format and discovered) are serialised, written, reloaded and '
              're-serialised 1-4 times; texts are compared, validated as '
              'UTF-8 JSON without trailing whitespace, and verification '
              'verdicts on matching data are compared across dict / path / '
              'parsed text / reloaded object, with and without unknown keys.')
LEVEL_NOTE = ('Trusted: json and pandas. Text fixpoint is asserted on one '
              'path (the tddafile metadata entry records the path).')
