"""
C17 -- the tdda command line gives the same constraints and verdicts as the
library; erroneous invocations exit non-zero and leave no output file.
"""

import io
import json
import os
import re
import subprocess
import sys

from hypothesis import strategies as st

from tv.core import Outcome, call, repo_root
from tv.gen import frames as F

ID = 'C17'
BUDGET = {'quick': 2400, 'thorough': 60000}
RULE = ('Tabular files written by the harness from generated frames (int64, '
        'float64 with NaN, bool, string-dtype text incl. unicode, '
        'datetime64) as .csv and .parquet; commands discover (-r / -R, '
        'output path, "-" or none), verify (-a / -f, -7, --epsilon, -t, '
        'constraints explicit or implied by the file name, CSV on standard '
        'input) and detect (--write-all, --per-constraint / '
        '--no-per-constraint, --output-fields / --no-output-fields, '
        '--interleave, --index, --int, csv / parquet output); constraints '
        'for verify / detect are discovered from the same file or from a '
        'perturbed sibling so that failures occur; plus error invocations '
        '(missing input, missing constraints file, unknown flag, '
        'contradictory options). Oracle: differential against the library '
        'called on load_df(path) with the documented translation of the '
        'flags: same "fields" section, same report text and counts, same '
        'detection file; discover->verify closure; errors end with status '
        '!= 0 and leave no output file. In-process main_with_argv; one case '
        'in twelve also as a real `python -m tdda.constraints.console` '
        'subprocess, which must agree. Non-trivial: a non-default flag and a '
        'failing constraint or record, or an error invocation; distinct by '
        'case hash.')
RULE += ' ' + "Also: data file names with more than one dot (default constraints file beside them, and a decoy .tdda under the shorter name); a column named 'c0,c1' beside c0 and c1; sibling files whose types only match after repair (bools as 0/1 integers, digit strings read as numbers); the RowNumber column of detect output compared with the index of the in-memory detection frame."
RULE += ' ' + 'Round 6: parquet inputs that carry stored row labels (reversed or offset); the detection output file is compared with the in-memory detected records (RowNumber by position, n_failures, *_ok columns); half of the verify/detect runs name the data by a relative path in another directory and the constraints file by its bare name, a decoy constraints file of that name lying beside the data.'
RULE += ' ' + "Round 7: the per-constraint marks and per-field counts of the printed report are parsed and compared with the library's verdicts; half of the detect runs find an earlier result at the output path, which must not survive."
RULE += ' ' + 'Round 8: a quarter of the constraint files also name a column the data lacks; a column called c0_x beside c0 (an ordering oracle for --interleave was withdrawn: DESIGN 8.5).'
ASSUMPTIONS = ['both sides load the file with tdda\'s load_df, as the '
               'statement specifies: loader defects common to both are '
               'invisible here']

KINDS = ['int64', 'float64', 'bool', 'string', 'dt64ns']
STEMS = ['data', 'data', 'readings.2024', 'data.v2', 'a.b.c']


@st.composite
def file_frame(draw):
    n = draw(st.sampled_from([1, 2, 3, 4, 5, 8]))
    ncols = draw(st.integers(1, 4))
    cols = []
    for i in range(ncols):
        kind = draw(st.sampled_from(KINDS))
        if kind == 'int64':
            vs = draw(st.sampled_from([st.integers(-50, 50),
                                       st.integers(-50, 50),
                                       st.integers(0, 1)]))
        elif kind == 'float64':
            vs = st.one_of(st.integers(-50, 50).map(lambda k: k / 4.0),
                           st.none())
        elif kind == 'bool':
            vs = st.booleans()
        elif kind == 'string':
            vs = st.one_of(st.sampled_from(['a', 'b', 'abc', 'é', 'x y', '12',
                                            'B2', 'zz top', '中']), st.none())
        else:
            vs = st.sampled_from(['2001-01-01T00:00:00',
                                  '1999-12-31T23:59:59',
                                  '2020-02-29T12:00:00',
                                  '2010-10-10T10:10:10'])
        whole = kind == 'float64' and draw(st.integers(0, 2)) == 0
        if whole:
            # an integer column that pandas holds as float because of nulls
            vs = st.one_of(st.integers(-50, 50).map(float), st.none())
        cells = [draw(vs) for _ in range(n)]
        if whole and n > 1:
            cells[draw(st.integers(0, n - 1))] = None
        if kind in ('float64', 'string') and all(v is None for v in cells):
            cells[0] = 1.5 if kind == 'float64' else 'a'
        cols.append({'name': 'c%d' % i, 'kind': kind, 'cells': cells})
    if ncols >= 3 and draw(st.integers(0, 3)) == 0:
        # a column whose name holds a comma, made of two other columns' names
        cols[-1]['name'] = 'c0,c1'
    elif ncols >= 2 and draw(st.integers(0, 2)) == 0:
        # a column whose name extends another's with an underscore
        cols[1]['name'] = 'c0_x'
    return {'n': n, 'cols': cols}


@st.composite
def case_strategy(draw, tier):
    fr = draw(file_frame())
    cmd = draw(st.sampled_from(['discover', 'verify', 'verify', 'detect',
                                'detect', 'error']))
    case = {'frame': fr, 'fmt': draw(st.sampled_from(['csv', 'parquet'])),
            'cmd': cmd,
            'subprocess': draw(st.sampled_from([False] * 14 + [True]))}
    if cmd == 'discover':
        case['rex'] = draw(st.sampled_from([None, '-r', '-R', '--rex']))
        case['out'] = draw(st.sampled_from(['file', 'file', 'dash', 'none']))
    elif cmd in ('verify', 'detect'):
        case['perturb'] = draw(st.sampled_from(['none', 'drop-rows',
                                                'drop-rows', 'shift',
                                                'ints-without-nulls',
                                                'ints-without-nulls',
                                                'bools-as-ints',
                                                'strings-as-numbers']))
        case['rex'] = draw(st.booleans())
        case['report'] = draw(st.sampled_from([None, '-a', '-f', '--all',
                                               '--fields']))
        case['ascii'] = draw(st.booleans())
        case['epsilon'] = draw(st.sampled_from([None, None, '0', '0.5',
                                                '0.01']))
        case['type_checking'] = draw(st.sampled_from([None, None, 'strict',
                                                      'sloppy']))
        case['implied_constraints'] = draw(st.booleans())
        case['stdin'] = (case['fmt'] == 'csv' and cmd == 'verify'
                         and draw(st.integers(0, 4)) == 0)
        if case['stdin'] and draw(st.booleans()):
            # white space at the very start of the data is data
            fr['cols'][0]['name'] = ' c0'
        if cmd == 'detect':
            names = [c['name'] for c in fr['cols']]
            case['write_all'] = draw(st.booleans())
            case['per_constraint'] = draw(st.sampled_from(
                [None, '--per-constraint', '--no-per-constraint']))
            of = draw(st.sampled_from(['default', 'none', 'list']))
            case['output_fields'] = (
                None if of == 'default' else False if of == 'none' else
                draw(st.lists(st.sampled_from(names), min_size=1,
                              max_size=len(names), unique=True)))
            case['interleave'] = draw(st.booleans())
            if case['interleave'] and draw(st.booleans()):
                # (every field, in the file's order: each is then followed
                # by its own flag columns)
                case['output_fields'] = list(names)
            case['index'] = draw(st.booleans())
            case['int'] = draw(st.booleans())
            case['outfmt'] = draw(st.sampled_from(['csv', 'csv', 'parquet']))
            if (case['fmt'] == 'parquet' and fr['n'] > 1 and fr['n'] % 2 == 0
                    and draw(st.booleans())):
                # (the input will carry row labels of its own, see run)
                case['output_fields'] = False
                case['outfmt'] = 'csv'
                case['perturb'] = draw(st.sampled_from(['drop-rows',
                                                        'shift']))
    else:
        case['error'] = draw(st.sampled_from([
            'discover-missing-input', 'verify-missing-input',
            'detect-missing-input', 'verify-missing-constraints',
            'detect-missing-constraints', 'discover-unknown-flag',
            'verify-unknown-flag', 'detect-unknown-flag',
            'detect-both-per-constraint', 'detect-both-output-fields',
            # flags that belong to other sub-commands are unknown flags too
            'discover-epsilon', 'discover-all', 'discover-type-checking',
            'verify-write-all', 'discover-per-constraint']))
    return case


def strategy(tier):
    return case_strategy(tier)


def valid(case):
    try:
        fr = case['frame']
        if not F.valid_frame(fr) or any(c['kind'] not in KINDS
                                        for c in fr['cols']):
            return False
        if fr['n'] < 1:
            return False
        for c in fr['cols']:
            if not re.match(r'^ ?c\d(,c\d)?$', c['name']):
                return False
            if c['kind'] in ('float64', 'string') and all(
                    v is None for v in c['cells']):
                return False
        return (case['fmt'] in ('csv', 'parquet') and case['cmd'] in (
            'discover', 'verify', 'detect', 'error'))
    except Exception:
        return False


def build(fr):
    return F.build_frame(fr)


def write_table(df, path):
    if path.endswith('.parquet'):
        df.to_parquet(path, index=False)
    else:
        df.to_csv(path, index=False, encoding='utf-8')


def run_cli(argv, stdin_text=None, entry='main_with_argv'):
    """In-process CLI run: (status, stdout, stderr); status 0 / int / 'exc'.
    entry='main' goes through console.main() (what the `tdda` script and
    `python -m tdda.constraints.console` call) with sys.argv set."""
    from tdda.constraints import console
    if entry == 'main':
        def main_with_argv(av):
            sys.argv[:] = av
            return console.main()
    else:
        main_with_argv = console.main_with_argv
    so, se, si = sys.stdout, sys.stderr, sys.stdin
    sys.stdout, sys.stderr = io.StringIO(), io.StringIO()
    if stdin_text is not None:
        sys.stdin = io.StringIO(stdin_text)
    raised = None
    try:
        try:
            ok, r = call(main_with_argv, ['tdda'] + list(argv))
            status = 0 if ok else 'exc'
            if not ok:
                raised = r
        except SystemExit as e:
            status = e.code if isinstance(e.code, int) else (
                0 if e.code is None else 1)
        return status, sys.stdout.getvalue(), sys.stderr.getvalue(), raised
    finally:
        sys.stdout, sys.stderr, sys.stdin = so, se, si


def run_sub(argv, cwd, stdin_text=None):
    env = dict(os.environ, PYTHONPATH=repo_root(), PYTHONIOENCODING='utf-8')
    r = subprocess.run([sys.executable, '-m', 'tdda.constraints.console']
                       + list(argv), cwd=cwd, env=env, input=stdin_text,
                       stdout=subprocess.PIPE, stderr=subprocess.PIPE,
                       text=True, encoding='utf-8', timeout=180)
    return r.returncode, r.stdout, r.stderr


def quiet(fn, *a, **kw):
    so, se = sys.stdout, sys.stderr
    sys.stdout, sys.stderr = io.StringIO(), io.StringIO()
    try:
        return call(fn, *a, **kw)
    finally:
        sys.stdout, sys.stderr = so, se


def sibling(case):
    """A perturbed frame to discover constraints from, so that the real file
    violates some of them."""
    import copy
    fr = copy.deepcopy(case['frame'])
    p = case.get('perturb', 'none')
    if p == 'drop-rows' and fr['n'] > 1:
        k = max(1, fr['n'] // 2)
        for c in fr['cols']:
            c['cells'] = c['cells'][:k]
            if c['kind'] in ('float64', 'string') and all(
                    v is None for v in c['cells']):
                c['cells'][0] = 1.5 if c['kind'] == 'float64' else 'a'
        fr['n'] = k
    elif p == 'ints-without-nulls':
        # the sibling holds whole-valued float columns as plain integers, so
        # its type constraint says int while the file's column is real
        for c in fr['cols']:
            if c['kind'] == 'float64' and all(
                    v is None or float(v).is_integer() for v in c['cells']):
                c['kind'] = 'int64'
                c['cells'] = [0 if v is None else int(v) for v in c['cells']]
    elif p == 'bools-as-ints':
        # the constraints say bool (as found in a file spelling true/false)
        # where this file holds 0/1 integers
        for c in fr['cols']:
            if c['kind'] == 'int64' and all(v in (0, 1) for v in c['cells']):
                c['kind'] = 'bool'
                c['cells'] = [bool(v) for v in c['cells']]
    elif p == 'strings-as-numbers':
        # the constraints say string where this file's column, all digits,
        # is read as numbers
        for c in fr['cols']:
            if c['kind'] == 'int64':
                c['kind'] = 'string'
                c['cells'] = [str(v) for v in c['cells']]
    elif p == 'shift':
        for c in fr['cols']:
            if c['kind'] == 'int64':
                c['cells'] = [v + 100 for v in c['cells']]
            elif c['kind'] == 'float64':
                c['cells'] = [None if v is None else v + 100.0
                              for v in c['cells']]
            elif c['kind'] == 'string':
                c['cells'] = [None if v is None else v + '!'
                              for v in c['cells']]
    return fr


def check_marks(out, text, v, what):
    """The per-constraint marks of the printed report against the library's
    verdicts (an oracle of its own: the command line and str(v) share the
    code that prints them)."""
    seen = 0
    for ln in text.split('\n'):
        m = re.match(r'^(.+?): (\d+) failures?  (\d+) pass(?:es)?  (.*)$', ln)
        if not m or m.group(1) not in v.fields:
            continue
        seen += 1
        ver = v.fields[m.group(1)]
        marks = {}
        for item in m.group(4).split('  '):
            parts = item.rsplit(' ', 1)
            if len(parts) == 2:
                marks[parts[0]] = parts[1]
        want = {k: (None if x is None else bool(x)) for (k, x) in ver.items()}
        got = {k: {'\u2713': True, 'OK': True, '\u2717': False, 'X': False,
                   '-': None}.get(x, x) for (k, x) in marks.items()}
        if got != want or (int(m.group(2)), int(m.group(3))) != (
                ver.failures, ver.passes):
            out.violate(what, 'report-marks',
                        'report line %r; the library\'s verdicts for that '
                        'field are %r (%d failures, %d passes)'
                        % (ln, want, ver.failures, ver.passes))
            return
    if seen:
        out.label('report-marks-checked')


def run(case, ctx):
    from tdda.constraints import discover_df, verify_df, detect_df
    from tdda.constraints.pd.constraints import load_df
    import pandas as pd
    out = Outcome()
    d = ctx.fresh_dir()
    os.chdir(d)
    fmt = case['fmt']
    # the data file's name may hold more dots than the one before its
    # extension; a same-named .tdda beside it is the default constraints
    stem = STEMS[(case['frame']['n'] + len(case['frame']['cols'])) % len(
        STEMS)]
    if stem != 'data':
        out.label('dotted-file-name')
    # the data file lies in another directory and is named by a relative
    # path, the constraints file (in the current directory) by its bare
    # name; a constraints file of that name beside the data is a decoy
    subdir = ''
    if (case['cmd'] in ('verify', 'detect') and not case.get('stdin')
            and not case.get('implied_constraints')
            and (case['frame']['n'] + len(case['frame']['cols'])) % 2):
        subdir = 'incoming'
        os.makedirs(os.path.join(d, subdir))
        with open(os.path.join(d, subdir, 'cons.tdda'), 'w') as f:
            f.write('{"fields": {"%s": {"type": "date", "max_nulls": 0, '
                    '"max": "1900-01-01"}}}'
                    % case['frame']['cols'][0]['name'].replace('"', ''))
        out.label('relative-paths-data-elsewhere')
    data = os.path.join(d, subdir, stem + '.' + fmt)
    data_arg = os.path.join(subdir, stem + '.' + fmt) if subdir else data
    df0 = build(case['frame'])
    if fmt == 'parquet' and len(df0) > 1 and case['frame']['n'] % 2 == 0:
        # a parquet file that carries row labels of its own (a frame saved
        # after sorting / filtering): reversed or offset
        df0.index = ([len(df0) - 1 - i for i in range(len(df0))]
                     if case['frame']['n'] % 4 == 0 else
                     [10 * i + 5 for i in range(len(df0))])
        df0.to_parquet(data)
        out.label('parquet-with-stored-row-labels')
    else:
        write_table(df0, data)
    cmd = case['cmd']
    out.label('cmd:' + cmd, 'fmt:' + fmt)
    use_sub = bool(case.get('subprocess'))
    if use_sub:
        out.label('subprocess-sample')

    # ------------------------------------------------------------ errors
    if cmd == 'error':
        e = case['error']
        out.label('error:' + e)
        out.nontrivial = True
        outp = os.path.join(d, 'out.csv')
        cons = os.path.join(d, 'cons.tdda')
        ok, c0 = quiet(discover_df, load_df(data))
        if ok and c0 is not None:
            with open(cons, 'w') as f:
                f.write(c0.to_json())
        else:
            with open(cons, 'w') as f:
                f.write('{"fields": {}}\n')
        missing = os.path.join(d, 'no-such-file.' + fmt)
        target = outp
        if e == 'discover-missing-input':
            argv = ['discover', missing, os.path.join(d, 'new.tdda')]
            target = os.path.join(d, 'new.tdda')
        elif e == 'verify-missing-input':
            argv = ['verify', missing, cons]
        elif e == 'detect-missing-input':
            argv = ['detect', missing, cons, outp]
        elif e == 'verify-missing-constraints':
            argv = ['verify', data, os.path.join(d, 'none.tdda')]
        elif e == 'detect-missing-constraints':
            argv = ['detect', data, os.path.join(d, 'none.tdda'), outp]
        elif e == 'discover-unknown-flag':
            argv = ['discover', '--frobnicate', data,
                    os.path.join(d, 'new.tdda')]
            target = os.path.join(d, 'new.tdda')
        elif e in ('discover-epsilon', 'discover-all',
                   'discover-type-checking', 'discover-per-constraint'):
            argv = ['discover'] + {'discover-epsilon': ['--epsilon', '0.5'],
                                   'discover-all': ['-a'],
                                   'discover-type-checking': ['-t', 'strict'],
                                   'discover-per-constraint':
                                   ['--per-constraint']}[e] + [
                data, os.path.join(d, 'new.tdda')]
            target = os.path.join(d, 'new.tdda')
        elif e == 'verify-write-all':
            argv = ['verify', '--write-all', data, cons]
        elif e == 'verify-unknown-flag':
            argv = ['verify', '--frobnicate', data, cons]
        elif e == 'detect-unknown-flag':
            argv = ['detect', '--frobnicate', data, cons, outp]
        elif e == 'detect-both-per-constraint':
            argv = ['detect', '--per-constraint', '--no-per-constraint',
                    data, cons, outp]
        else:
            argv = ['detect', '--output-fields', 'c0',
                    '--no-output-fields', data, cons, outp]
            # nargs='*' would swallow the positionals: put them first
            argv = ['detect', data, cons, outp, '--output-fields', 'c0',
                    '--no-output-fields']
        status, so, se, raised = run_cli(argv)
        if status == 0:
            out.violate('errors-exit-nonzero', e,
                        'tdda %s ended with status 0; stdout %r stderr %r'
                        % (' '.join(os.path.basename(a) if os.sep in a else a
                                    for a in argv), so[-200:], se[-200:]))
        if os.path.exists(target):
            out.violate('errors-leave-no-output', e,
                        '%s exists after the failed invocation'
                        % os.path.basename(target))
            os.remove(target)
        # the same through the real entry point, console.main()
        status, so, se, raised = run_cli(argv, entry='main')
        if status == 0:
            out.violate('errors-exit-nonzero', e + ':main()',
                        'console.main() with argv %s returned normally '
                        '(exit status 0); stdout %r stderr %r'
                        % (' '.join(os.path.basename(a) if os.sep in a else a
                                    for a in argv), so[-200:], se[-200:]))
        if os.path.exists(target):
            out.violate('errors-leave-no-output', e + ':main()',
                        '%s exists after the failed invocation'
                        % os.path.basename(target))
        if use_sub:
            if os.path.exists(target):
                os.remove(target)
            rc, so2, se2 = run_sub(argv, d)
            if rc == 0:
                out.violate('errors-exit-nonzero', e + ':subprocess',
                            'python -m tdda.constraints.console %s: exit 0; '
                            'stdout %r' % (' '.join(
                                os.path.basename(a) if os.sep in a else a
                                for a in argv), so2[-200:]))
            if os.path.exists(target):
                out.violate('errors-leave-no-output', e + ':subprocess',
                            '%s exists' % os.path.basename(target))
        return out

    ok, ldf = quiet(load_df, data)
    if not ok:
        out.violate('never-raises', ldf.bucket(), ldf.detail())
        return out

    # ---------------------------------------------------------- discover
    if cmd == 'discover':
        flag = case.get('rex')
        inc_rex = flag in ('-r', '--rex')
        argv = ['discover'] + ([flag] if flag else []) + [data]
        outpath = None
        if case['out'] == 'file':
            outpath = os.path.join(d, 'found.tdda')
            argv.append(outpath)
        elif case['out'] == 'dash':
            argv.append('-')
        status, so, se, raised = run_cli(argv)
        ok, lib = quiet(discover_df, ldf.copy(), inc_rex=inc_rex)
        if status != 0:
            out.violate('discover', 'status', 'tdda %s: status %r %s; '
                        'stderr %r' % (' '.join(argv[:-1]), status,
                                       raised.detail() if raised else '',
                                       se[-300:]))
            return out
        libfields = lib.to_dict()['fields'] if (ok and lib is not None
                                                ) else None
        text = None
        if outpath:
            if os.path.exists(outpath):
                text = open(outpath, encoding='utf-8').read()
        else:
            text = so
        if libfields is None:
            if text and text.strip():
                out.violate('discover', 'output-without-constraints',
                            'library discovers nothing but CLI wrote %r'
                            % text[:200])
            return out
        out.nontrivial = bool(flag) or case['out'] != 'file'
        try:
            clifields = json.loads(text)['fields']
        except Exception as e:
            out.violate('discover', 'unparseable-output',
                        'output of tdda discover is not a constraints '
                        'document: %s; %r' % (e, (text or '')[:200]))
            return out
        want = json.loads(json.dumps(libfields, default=str))
        if clifields != want:
            out.violate('discover', 'fields-differ',
                        'tdda discover %s gives %r; library gives %r'
                        % (flag, clifields, want))
        if outpath:
            # closure through the command line
            st2, so2, se2, r2 = run_cli(['verify', data, outpath])
            m = re.search(r'Constraints failing: (\d+)', so2)
            if st2 != 0 or not m or int(m.group(1)) != 0:
                out.violate('closure', 'discover-then-verify',
                            'constraints discovered from the file do not '
                            'verify against it: status %r, output %r'
                            % (st2, so2[-300:]))
        if use_sub:
            rc, so3, se3 = run_sub(argv[:3] if not outpath else
                                   argv[:-1] + [os.path.join(d,
                                                             'found2.tdda')],
                                   d)
            t3 = so3
            if outpath and os.path.exists(os.path.join(d, 'found2.tdda')):
                t3 = open(os.path.join(d, 'found2.tdda'),
                          encoding='utf-8').read()
            try:
                f3 = json.loads(t3)['fields']
            except Exception:
                f3 = None
            if rc < 0:
                out.label('subprocess-killed-by-signal-at-exit')
            if rc > 0 or f3 != want:
                out.violate('subprocess-agrees', 'discover',
                            'subprocess: exit %d, fields %r vs %r'
                            % (rc, f3, want))
        return out

    # ----------------------------------------------- verify / detect
    sib = build(sibling(case))
    sib_path = os.path.join(d, 'sib.' + fmt)
    write_table(sib, sib_path)
    ok, sdf = quiet(load_df, sib_path)
    ok2, cons = quiet(discover_df, sdf, inc_rex=case['rex']) if ok else (
        False, None)
    if not ok2 or cons is None:
        out.label('no-constraints-discovered')
        return out
    cpath = os.path.join(d, (stem + '.tdda') if case['implied_constraints']
                         else 'cons.tdda')
    if case['implied_constraints'] and '.' in stem:
        # a decoy under the shorter name: constraints nothing satisfies
        with open(os.path.join(d, stem.split('.')[0] + '.tdda'), 'w') as f:
            f.write('{"fields": {"%s": {"type": "date", "max_nulls": 0, '
                    '"max": "1900-01-01"}}}' % case['frame']['cols'][0][
                        'name'])
    with open(cpath, 'w', encoding='utf-8') as f:
        f.write(cons.to_json())
    if case['frame']['n'] % 4 == 1:
        # the constraints also name a column the data file does not have
        # (that constraint fails; no record fails because of it)
        cj = json.load(open(cpath, encoding='utf-8'))
        cj['fields']['no_such_column'] = {'type': 'int', 'min': 0}
        with open(cpath, 'w', encoding='utf-8') as f:
            json.dump(cj, f)
        out.label('constraint-on-a-missing-column')
    cpath_arg = 'cons.tdda' if subdir else cpath
    flags = []
    kw = {}
    if case['report']:
        flags.append(case['report'])
    report = 'fields' if case['report'] in ('-f', '--fields') else 'all'
    if case['ascii']:
        flags.append('-7')
        kw['ascii'] = True
    else:
        kw['ascii'] = False
    if case['epsilon'] is not None:
        flags += ['--epsilon', case['epsilon']]
        kw['epsilon'] = float(case['epsilon'])
    if case['type_checking']:
        flags += ['-t', case['type_checking']]
        kw['type_checking'] = case['type_checking']
    nondefault = bool(flags)
    if cmd == 'verify':
        stdin_text = None
        if case['stdin']:
            stdin_text = open(data, encoding='utf-8').read()
            argv = ['verify'] + flags + ['-', cpath]
            ok, ldf = quiet(load_df, io.StringIO(stdin_text))
            out.label('stdin')
        elif case['implied_constraints']:
            argv = ['verify'] + flags + [data]
        else:
            argv = ['verify'] + flags + [data_arg, cpath_arg]
        status, so, se, raised = run_cli(argv, stdin_text)
        ok, v = quiet(verify_df, ldf.copy(), cpath, report=report, **kw)
        if not ok:
            out.label('library-raises')
            if status == 0:
                out.violate('verify', 'cli-ok-library-raises', v.detail())
            return out
        if status != 0:
            out.violate('verify', 'status', 'tdda %s: status %r %s stderr %r'
                        % (' '.join(flags), status,
                           raised.detail() if raised else '', se[-300:]))
            return out
        want = str(v) + '\n'
        out.nontrivial = nondefault and v.failures > 0
        if v.failures:
            out.label('has-failures')
        m1 = re.search(r'Constraints passing: (\d+)', so)
        m2 = re.search(r'Constraints failing: (\d+)', so)
        if not m1 or not m2 or (int(m1.group(1)), int(m2.group(1))) != (
                v.passes, v.failures):
            out.violate('verify', 'counts',
                        'tdda verify %s reports %s/%s, library %d/%d'
                        % (' '.join(flags), m1 and m1.group(1),
                           m2 and m2.group(1), v.passes, v.failures))
        elif so != want:
            import difflib
            diff = '\n'.join(list(difflib.unified_diff(
                want.split('\n'), so.split('\n'), lineterm='', n=0))[:10])
            out.violate('verify', 'report-text',
                        'tdda verify %s output differs from str(verify_df('
                        '...)):\n%s' % (' '.join(flags), diff))
        check_marks(out, so, v, 'verify')
        if use_sub:
            rc, so2, se2 = run_sub(argv, d, stdin_text)
            if rc < 0:
                out.label('subprocess-killed-by-signal-at-exit')
            if rc > 0 or so2 != want:
                out.violate('subprocess-agrees', 'verify',
                            'subprocess exit %d; output equal: %s; stderr %r'
                            % (rc, so2 == want, se2[-200:]))
        return out

    # detect
    dflags = list(flags)
    dkw = dict(kw)
    dkw.pop('ascii', None)
    if case['write_all']:
        dflags.append('--write-all')
        dkw['write_all'] = True
    pc = case['per_constraint']
    if pc:
        dflags.append(pc)
    dkw['per_constraint'] = (pc != '--no-per-constraint')
    of = case['output_fields']
    if of is None:
        dkw['output_fields'] = []
    elif of is False:
        dflags.append('--no-output-fields')
        dkw['output_fields'] = None
    else:
        dkw['output_fields'] = list(of)
    if case['interleave']:
        dflags.append('--interleave')
        dkw['interleave'] = True
    if case['index']:
        dflags.append('--index')
        dkw['index'] = True
    if case['int']:
        dflags.append('--int')
        dkw['boolean_ints'] = True
    cli_out = os.path.join(d, 'cli_out.' + case['outfmt'])
    lib_out = os.path.join(d, 'lib_out.' + case['outfmt'])
    argv = ['detect'] + dflags + [data_arg, cpath_arg, cli_out]
    if isinstance(of, list):
        argv += ['--output-fields'] + list(of)
    STALE = b'RowNumber,n_failures\n999,9\n'
    stale = (case['frame']['n'] + len(dflags)) % 2 == 0
    if stale:
        # an earlier run's output is still at the path given
        for p_ in (cli_out, lib_out):
            with open(p_, 'wb') as f:
                f.write(STALE)
        out.label('history:output-path-holds-an-earlier-result')
    status, so, se, raised = run_cli(argv)
    ok, v = quiet(detect_df, ldf.copy(), cpath, outpath=lib_out,
                  rownumber_is_index=False, report='records', **dkw)
    if not ok:
        out.label('library-raises')
        if status == 0:
            out.violate('detect', 'cli-ok-library-raises', v.detail())
        return out
    if status != 0:
        out.violate('detect', 'status', 'tdda detect %s: status %r %s; '
                    'stderr %r' % (' '.join(dflags), status,
                                   raised.detail() if raised else '',
                                   se[-300:]))
        return out
    nrec = v.detection.n_failing_records if v.detection else 0
    out.nontrivial = bool(dflags) and nrec > 0
    if nrec:
        out.label('has-failing-records')
    if v.detection is not None:
        m1 = re.search(r'Records passing: (\d+)', so)
        m2 = re.search(r'Records failing: (\d+)', so)
        if not m1 or not m2 or (int(m1.group(1)), int(m2.group(1))) != (
                v.detection.n_passing_records, v.detection.n_failing_records):
            out.violate('detect', 'record-counts',
                        'tdda detect %s reports %s/%s records, library %d/%d'
                        % (' '.join(dflags), m1 and m1.group(1),
                           m2 and m2.group(1), v.detection.n_passing_records,
                           v.detection.n_failing_records))
    check_marks(out, so, v, 'detect')
    if stale:
        for (who, p_) in (('tdda detect', cli_out), ('detect_df', lib_out)):
            if os.path.exists(p_) and open(p_, 'rb').read() == STALE:
                out.violate('detect', 'stale-output-left',
                            '%s %s: the output path still holds the earlier '
                            'run\'s records (this run: %d failing records)'
                            % (who, ' '.join(dflags), nrec))
                return out
    e1, e2 = os.path.exists(cli_out), os.path.exists(lib_out)
    if e1 != e2:
        out.violate('detect', 'output-file-existence',
                    'tdda detect %s: output file %s, library output %s'
                    % (' '.join(dflags), 'exists' if e1 else 'absent',
                       'exists' if e2 else 'absent'))
    elif e1:
        if case['outfmt'] == 'csv':
            a = open(cli_out, 'rb').read()
            b = open(lib_out, 'rb').read()
            if a != b:
                out.violate('detect', 'output-file-content',
                            'tdda detect %s wrote %r..., library wrote %r...'
                            % (' '.join(dflags), a[:300], b[:300]))
        else:
            try:
                a = pd.read_parquet(cli_out)
                b = pd.read_parquet(lib_out)
                pd.testing.assert_frame_equal(a, b)
            except Exception as e:
                out.violate('detect', 'output-file-content',
                            'tdda detect %s parquet output differs from the '
                            'library\'s: %s' % (' '.join(dflags),
                                                str(e)[:300]))
    if e1 and v.detection is not None:
        # the row numbers in the file are positions in the input file (from
        # 1), whatever else the file holds: compared with the index of the
        # in-memory detection frame, which no file-writing code touches
        ok_d, det = quiet(v.detected)
        try:
            f = (pd.read_csv(cli_out, dtype=str, keep_default_na=False)
                 if case['outfmt'] == 'csv' else pd.read_parquet(cli_out))
        except Exception:
            f = None
        if ok_d and det is not None and f is not None and (
                'RowNumber' in f.columns):
            labels = list(ldf.index)
            want_rn = [labels.index(i) + 1 for i in det.index]
            got_rn = [int(x) for x in f['RowNumber']]
            out.label('row-number-column')
            if got_rn != want_rn:
                out.violate('detect', 'row-numbers',
                            'tdda detect %s: RowNumber column %r, positions '
                            'of the detected records (from 1) %r'
                            % (' '.join(dflags), got_rn, want_rn))
        if ok_d and det is not None and f is not None and (
                'n_failures' in f.columns and 'n_failures' in det.columns):
            # the failure counts in the file are those of the detected
            # records, in their order
            want_nf = [int(x) for x in det['n_failures']]
            try:
                got_nf = [int(float(x)) for x in f['n_failures']]
            except (TypeError, ValueError):
                got_nf = list(f['n_failures'])
            out.label('n_failures-column')
            if got_nf != want_nf:
                out.violate('detect', 'n_failures-column',
                            'tdda detect %s: n_failures column %r, the '
                            'detected records have %r'
                            % (' '.join(dflags), got_nf, want_nf))
            for c in det.columns:
                if c in f.columns and c.endswith('_ok') and (
                        case['outfmt'] == 'csv' and not case['int']):
                    want_ok = ['' if pd.isnull(x) else
                               'true' if x else 'false' for x in det[c]]
                    if list(f[c]) != want_ok:
                        out.violate('detect', 'ok-column',
                                    'tdda detect %s: column %s holds %r, '
                                    'the detected records have %r'
                                    % (' '.join(dflags), c, list(f[c]),
                                       want_ok))
                        break
    if use_sub:
        sub_out = os.path.join(d, 'sub_out.' + case['outfmt'])
        argv2 = [sub_out if a == cli_out else a for a in argv]
        rc, so2, se2 = run_sub(argv2, d)
        same = (os.path.exists(sub_out) == e1)
        if same and e1 and case['outfmt'] == 'csv':
            same = open(sub_out, 'rb').read() == open(cli_out, 'rb').read()
        if rc < 0:
            out.label('subprocess-killed-by-signal-at-exit')
        if rc > 0 or not same or so2 != so:
            out.violate('subprocess-agrees', 'detect',
                        'subprocess exit %d, file agrees %s, stdout agrees '
                        '%s; stderr %r' % (rc, same, so2 == so, se2[-200:]))
    return out


TECHNIQUE = ('property-based differential testing (Hypothesis): command line '
             'vs library on the same loaded frame, closure, and an '
             'error-invocation oracle; sampled real subprocess runs')
LEVEL_TEXT = ('Generated files x flag combinations for discover / verify / '
              'detect; the command line (in-process main_with_argv, plus '
              'sampled `python -m` subprocesses) is compared with the '
              'library called with the documented translation of the flags: '
              'constraints, report text and counts, detection files, exit '
              'status and absence of output after errors.')
LEVEL_NOTE = ('Trusted: the translation of flags to keyword '
              'arguments (from the flag help texts); pandas CSV/parquet '
              'writers for the input files.')
