"""
C04 -- text comparison passes exactly when texts agree modulo declared
exclusions.
"""

import os

from hypothesis import strategies as st

from tv.core import Outcome, call
from tv.gen import lines as L

ID = 'C04'
BUDGET = {'quick': 12000, 'thorough': 400000}
RULE = ('Reference texts of 0-8 lines built from templates (fixed words + '
        'holes filled with digit / hex / decimal / time / range shapes); '
        'the actual text is derived by 0-3 tagged edits (refill a hole with '
        'the same or another shape, change one fixed character, pad with '
        'whitespace on either side, rotate 2-4 lines, insert / delete marked '
        'or plain lines, mark a pair of lines, duplicate, REM lines, long '
        'lines, trailing blank line); x every subset of lstrip, rstrip, '
        'ignore_substrings, ignore_patterns (12 patterns incl. anchored, '
        'half-anchored, variable-width and grouped), remove_lines, '
        'preprocess, max_permutation_cases 0-4; x final-newline variants x '
        'entry points check_strings / assertStringCorrect / '
        'assertTextFileCorrect / assertTextFilesCorrect. Oracle: the '
        'executable specification tv/gen/lines.spec (two-sided: says pass or '
        'fail), with "differ only in parts matched by an ignore-pattern" '
        'decided by dynamic programming over factorisations. Non-trivial: '
        'the verdict differs from plain equality of the two texts, or some '
        'option excuses a pair, or exactly one unexcused pair; distinct by '
        'case hash.')
RULE += ' ' + "Also: remove-substrings with edge white space ('# ', ' #', '--\\t') with and without stripping; ignore-patterns that are bare top-level alternations; preprocessors whose result is empty on one or both sides; histories on one comparison object (main options, 1-2 other ignore-pattern lists, main options again, every call judged); in lists of files the main actual file listed a second time against a byte copy of itself."
RULE += ' ' + "Round 7: a sub-check on file entry points appends one more line to both files that differs in a single byte invalid in the files' encoding (caf\\xe9 / caf\\xe8): that must never pass; pattern-matched holes are sometimes filled with decimal digits of other scripts."
ASSUMPTIONS = ['presence/absence of the final newline and one trailing blank '
               'line are not differences (deliberate in the code, statement '
               'silent)']

F_GREEDY = 'F-textcmp-greedy-pattern-split'
ENTRIES = ['check_strings', 'assertStringCorrect', 'assertTextFileCorrect',
           'assertTextFilesCorrect']


def strategy(tier):
    return st.fixed_dictionaries({
        'main': L.line_case(tier),
        'entry': st.sampled_from(ENTRIES),
        'newline': st.fixed_dictionaries({'ref': st.booleans(),
                                          'act': st.booleans()}),
        'extra_pairs': st.lists(st.sampled_from(['same', 'same', 'diff',
                                                 'dup-actual']),
                                max_size=2),
        'eol': st.sampled_from(EOLS),
        # a history on ONE comparison object: the main options, then each
        # of these other ignore-pattern lists, then the main options again
        'prelude': st.one_of(
            st.just([]),
            st.lists(st.one_of(st.none(), st.lists(
                st.sampled_from(L.PATTERN_TEXTS), min_size=1, max_size=2,
                unique=True)), min_size=1, max_size=2)),
    }).map(flatten)


# line terminators both readers (universal-newline file reading, then
# str.splitlines) treat alike; 'exotic' puts a further line-boundary
# character inside every line of an IDENTICAL pair of texts
EOLS = ['\n', '\n', '\n', '\r\n', '\r\n', '\r', 'exotic:\x0c',
        'exotic:\u2028', 'exotic:\x85', 'exotic:\x0b', 'exotic:\x1d']


def flatten(c):
    m = c.pop('main')
    c.update(m)
    if c['eol'].startswith('exotic:'):
        ch = c['eol'][7:]
        c['ref'] = [ln[:len(ln) // 2] + ch + ln[len(ln) // 2:]
                    for ln in c['ref']]
        c['act'] = list(c['ref'])
        c['newline']['act'] = c['newline']['ref']
    return c


def flatten_plain(c):
    m = c.pop('main')
    c.update(m)
    return c


def valid_prelude(p):
    return isinstance(p, list) and len(p) <= 3 and all(
        x is None or (isinstance(x, list) and x
                      and all(y in L.PATTERN_TEXTS for y in x)) for x in p)


def valid(case):
    eol = case.get('eol', '\n')
    if eol not in EOLS or not valid_prelude(case.get('prelude', [])):
        return False
    if eol.startswith('exotic:'):
        ch = eol[7:]
        if case.get('ref') != case.get('act') or case.get('newline', {}).get(
                'ref') != case.get('newline', {}).get('act'):
            return False
        strip = lambda xs: [x.replace(ch, '') for x in xs] if isinstance(
            xs, list) and all(isinstance(x, str) for x in xs) else None
        if not L.valid_lines(strip(case.get('ref'))):
            return False
        return (L.valid_opts(case.get('opts'))
                and case.get('entry') in ENTRIES
                and isinstance(case.get('extra_pairs'), list))
    return (L.valid_lines(case.get('ref')) and L.valid_lines(case.get('act'))
            and L.valid_opts(case.get('opts'))
            and case.get('entry') in ENTRIES
            and isinstance(case.get('newline'), dict)
            and set(case['newline']) == {'ref', 'act'}
            and all(isinstance(v, bool) for v in case['newline'].values())
            and isinstance(case.get('extra_pairs'), list)
            and all(x in ('same', 'diff', 'dup-actual')
                    for x in case['extra_pairs']))


def to_text(lines, final_newline, eol='\n'):
    if eol.startswith('exotic:'):
        eol = '\n'
    t = eol.join(lines)
    if final_newline and lines:
        t += eol
    return t


def kwargs_for(o):
    kw = dict(lstrip=o['lstrip'], rstrip=o['rstrip'],
              ignore_substrings=o['ignore_substrings'],
              ignore_patterns=o['ignore_patterns'],
              remove_lines=o['remove_lines'],
              preprocess=L.preprocess_fn(o['preprocess']),
              max_permutation_cases=o['max_permutation_cases'])
    return kw


class Recorder(object):
    def __init__(self):
        self.calls = []

    def __call__(self, ok, msg=None):
        self.calls.append((bool(ok), msg))

    @property
    def failed(self):
        return any(not ok for (ok, _) in self.calls)


def greedy_class(case, got_pass, line_pairs):
    """
    Predicate of the recorded finding: the verdict differs from the rule,
    and it is exactly the verdict the rule gives when "differs only in parts
    matched by an ignore-pattern" is decided by tdda's documented greedy
    split (tv.gen.lines.greedy_equivalent) instead of over all
    factorisations -- i.e. some pair the statement excuses is not excused
    (which can also turn a non-permutation into a permutation).
    """
    g_all = all(L.spec(r, a, case['opts'], equiv=L.greedy_equivalent)[0]
                for (r, a) in line_pairs)
    return g_all == got_pass


def run(case, ctx):
    from tdda.referencetest.checkfiles import FilesComparison
    from tdda.referencetest.referencetest import ReferenceTest
    out = Outcome()
    o = case['opts']
    ref, act = case['ref'], case['act']
    entry = case['entry']
    eol = case.get('eol', '\n')
    exotic = eol.startswith('exotic:')
    d = ctx.fresh_dir()
    tmp = os.path.join(d, 'tmp')
    os.makedirs(tmp)
    if entry == 'check_strings':
        lines_ref, lines_act = ref, act
    else:
        lines_ref = L.text_lines(ref, case['newline']['ref'])
        lines_act = L.text_lines(act, case['newline']['act'])
    if exotic:
        # identical texts: must pass under every option combination
        expect, info = True, {'reason': 'identical-with-line-boundary-char',
                              'used': [], 'unexcused': []}
        out.label('exotic-line-boundary')
    else:
        expect, info = L.spec(lines_ref, lines_act, o)
    pairs = [(ref, act, expect)]
    if entry == 'assertTextFilesCorrect':
        for x in case['extra_pairs']:
            if x == 'same':
                pairs.append((['SAME LINE', 'TWO'], ['SAME LINE', 'TWO'],
                              True))
            elif x == 'dup-actual':
                # the main actual file again, against a reference that
                # agrees with it: every listed pair is a check of its own
                pairs.append((list(lines_act), 'MAIN-ACTUAL', True))
            else:
                e2, _ = L.spec(['LEFT'], ['RIGHT'], o)
                pairs.append((['LEFT'], ['RIGHT'], e2))
    expect_all = all(p[2] for p in pairs)

    if eol in ('\r\n', '\r'):
        out.label('eol:' + repr(eol))
    out.label('entry:' + entry, 'expect:' + ('pass' if expect else 'fail'),
              'reason:' + info['reason'])
    for u in info.get('used', []):
        out.label('decided-by:' + u)
    plain_equal = (ref == act)
    if expect != plain_equal or info.get('used') or (
            info.get('unexcused') is not None
            and len(info['unexcused']) == 1):
        out.nontrivial = True

    kw = kwargs_for(o)
    rec = Recorder()
    rt = ReferenceTest(rec)
    rt.files.tmp_dir = tmp
    rt.files.verbose = False
    ReferenceTest.verbose = False
    # with no encoding given, tdda guesses it from the reference's name
    ext = ['.txt', '.txt', '.ps', '.eps', '.md', '.svg', '.csv', ''][
        (len(ref) + len(act)) % 8]
    ref_path = os.path.join(d, 'ref' + ext)
    act_path = os.path.join(d, 'act' + ext)
    if ext not in ('.txt',):
        out.label('reference-extension:' + (ext or 'none'))
    with open(ref_path, 'w', encoding='utf-8', newline='') as f:
        f.write(to_text(ref, case['newline']['ref'], eol))
    with open(act_path, 'w', encoding='utf-8', newline='') as f:
        f.write(to_text(act, case['newline']['act'], eol))

    fc = FilesComparison(print_fn=None, verbose=False, tmp_dir=tmp)
    aps, rps = [act_path], [ref_path]
    if entry == 'assertTextFilesCorrect':
        for i, (r_, a_, _) in enumerate(pairs[1:]):
            rp = os.path.join(d, 'ref%d.txt' % i)
            ap = os.path.join(d, 'act%d.txt' % i)
            with open(rp, 'w', encoding='utf-8') as f:
                f.write(to_text(r_, True))
            if a_ == 'MAIN-ACTUAL':
                ap = act_path
                with open(act_path, 'rb') as fa, open(rp, 'wb') as fr:
                    fr.write(fa.read())     # byte for byte the same
            else:
                with open(ap, 'w', encoding='utf-8') as f:
                    f.write(to_text(a_, True))
            aps.append(ap)
            rps.append(rp)

    def compare(kw):
        """One comparison through the chosen entry point, on the objects
        shared by the whole history."""
        rec.calls = []
        if entry == 'check_strings':
            ok, r = call(fc.check_strings, list(act), list(ref),
                         create_temporaries=False, **kw)
            return ok, r, (ok and r.failures == 0)
        if entry == 'assertStringCorrect':
            ok, r = call(rt.assertStringCorrect,
                         to_text(act, case['newline']['act'], eol), ref_path,
                         **kw)
        elif entry == 'assertTextFileCorrect':
            ok, r = call(rt.assertTextFileCorrect, act_path, ref_path, **kw)
        else:
            ok, r = call(rt.assertTextFilesCorrect, aps, rps, **kw)
        return ok, r, not rec.failed

    def expectation(o2):
        if exotic:
            e, inf = True, {'reason': 'identical-with-line-boundary-char',
                            'used': [], 'unexcused': []}
        else:
            e, inf = L.spec(lines_ref, lines_act, o2)
        if entry == 'assertTextFilesCorrect':
            for x in case['extra_pairs']:
                if x == 'diff':
                    e = e and L.spec(['LEFT'], ['RIGHT'], o2)[0]
        return e, inf        # ('same' and 'dup-actual' pairs agree)

    prelude = case.get('prelude') or []
    history = [('main', o)]
    if prelude:
        out.label('history-on-one-object')
        history += [('other-patterns', dict(o, ignore_patterns=p))
                    for p in prelude] + [('main-again', o)]
    for (step, o2) in history:
        expect, info = expectation(o2)
        ok, r, got_pass = compare(kwargs_for(o2))
        if not ok:
            out.violate('never-raises', r.bucket(), '%s (%s): %s'
                        % (entry, step, r.detail()))
            return out
        if got_pass == expect:
            continue
        direction = 'should-pass' if expect else 'should-fail'
        detail = ('%s (%s): comparison %s but the rule says %s (%s); ref %r '
                  'act %r opts %r' % (entry, step,
                                      'passed' if got_pass else 'failed',
                                      'pass' if expect else 'fail',
                                      info['reason'], ref, act,
                                      {k: v for (k, v) in o2.items() if v}))
        line_pairs = [(lines_ref, lines_act)]
        if entry == 'assertTextFilesCorrect':
            line_pairs += [(p[0], p[0] if p[1] == 'MAIN-ACTUAL' else p[1])
                           for p in pairs[1:]]
        if (not exotic and info.get('greedy_would_miss')
                and greedy_class(dict(case, opts=o2), got_pass, line_pairs)):
            out.known_hit(F_GREEDY, detail)
        else:
            out.violate('verdict', '%s:%s%s' % (
                direction, info['reason'],
                '' if step == 'main' else ':' + step), detail)
        break
    if (entry in ('assertTextFileCorrect', 'assertTextFilesCorrect')
            and not out.violations and not o['ignore_patterns']
            and not o['preprocess'] and (len(ref) + len(act)) % 3 == 0
            and eol in ('\n', '\r\n', '\r')
            and not any(sub and any(sub in 'caf%s zq' % ch for ch in
                                    '\xe9\xe8\ufffd')
                        for sub in (o['ignore_substrings'] or [])
                        + (o['remove_lines'] or []))):
        # the same files with one more line each, which differs in one byte
        # that is not valid in the encoding the files are read in (a
        # Latin-1 word in a UTF-8 file): a difference no option excuses -
        # failing, or refusing to read the files, but never a pass
        tail = {}
        for (tag, src, byte) in (('ref', ref_path, b'\xe9'),
                                 ('act', act_path, b'\xe8')):
            with open(src, 'rb') as f:
                data = f.read()
            if data and not data.endswith((b'\n', b'\r')):
                data += eol.encode('ascii')
            tail[tag] = os.path.join(d, '%s-tail.txt' % tag)
            with open(tail[tag], 'wb') as f:
                f.write(data + b'caf' + byte + b' zq' + eol.encode('ascii'))
        rec.calls = []
        if entry == 'assertTextFileCorrect':
            ok, r = call(rt.assertTextFileCorrect, tail['act'], tail['ref'],
                         **kwargs_for(o))
        else:
            ok, r = call(rt.assertTextFilesCorrect, [tail['act']],
                         [tail['ref']], **kwargs_for(o))
        out.label('undecodable-differing-byte:' + (
            'raises' if not ok else 'fails' if rec.failed else 'passes'))
        if ok and not rec.failed:
            out.violate('verdict', 'should-fail:undecodable-bytes-differ',
                        '%s passed for two files whose last lines are '
                        'b"caf\\xe8 zq" and b"caf\\xe9 zq"; opts %r'
                        % (entry, {k: v for (k, v) in o.items() if v}))
    return out


TECHNIQUE = ('property-based testing (Hypothesis, edit-tagged line '
             'generator) against an executable specification of the '
             'comparison rule (two-sided reference model) plus entry-point '
             'differential')
LEVEL_TEXT = ('Generated (reference, actual, options) triples in which each '
              'option is made to matter by construction; the pass/fail '
              'verdict of four entry points is compared with an independent '
              'specification that decides "differs only in parts matched by '
              'a pattern" by dynamic programming.')
LEVEL_NOTE = ('Trusted: tv/gen/lines.spec (about 120 lines). Final-newline '
              'and single trailing blank line are treated as insignificant, '
              'as the code deliberately does.')
