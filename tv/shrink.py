"""
Generic structural minimiser over JSON cases.

shrink(case, still_fails, budget) repeatedly tries simpler variants of the
case (delete list elements, shorten strings, simplify scalars, drop dict
keys) and keeps a variant when still_fails(variant) is true.  still_fails
must return False (not raise) for variants the property module cannot
interpret.  The budget is a number of still_fails calls, so the cost is
bounded by case count, not by time.
"""

import copy

from tv.core import case_size


class _Budget(object):
    def __init__(self, n):
        self.left = n

    def take(self):
        if self.left <= 0:
            return False
        self.left -= 1
        return True


def _get(root, path):
    x = root
    for p in path:
        x = x[p]
    return x


def _set(root, path, value):
    root = copy.deepcopy(root)
    if not path:
        return value
    x = root
    for p in path[:-1]:
        x = x[p]
    x[path[-1]] = value
    return root


def _paths(x, prefix=()):
    yield prefix
    if isinstance(x, dict):
        for k in sorted(x.keys()):
            for p in _paths(x[k], prefix + (k,)):
                yield p
    elif isinstance(x, list):
        for i in range(len(x)):
            for p in _paths(x[i], prefix + (i,)):
                yield p


def _candidates(v):
    """Simpler replacements for the value v, most aggressive first."""
    if isinstance(v, bool):
        if v:
            yield False
    elif isinstance(v, int):
        if v != 0:
            yield 0
            if abs(v) > 1:
                yield 1 if v > 0 else -1
                yield v // 2 if v > 0 else -((-v) // 2)
                yield v - 1 if v > 0 else v + 1
    elif isinstance(v, float):
        if v != 0.0 and v == v:
            yield 0.0
            yield 1.0
            if v == v and abs(v) < 1e15 and float(int(v)) != v:
                yield float(int(v))
    elif isinstance(v, str):
        n = len(v)
        if n:
            yield ''
            k = n // 2
            while k >= 1:
                i = 0
                while i < n:
                    yield v[:i] + v[i + k:]
                    i += k
                k //= 2
            for i, c in enumerate(v):
                if c not in 'a0 ':
                    rep = 'a' if c.isalpha() else '0' if c.isdigit() else None
                    if rep and rep != c:
                        yield v[:i] + rep + v[i + 1:]
    elif isinstance(v, list):
        n = len(v)
        if n:
            yield []
            k = n // 2
            while k >= 1:
                i = 0
                while i < n:
                    yield v[:i] + v[i + k:]
                    i += k
                k //= 2
    elif isinstance(v, dict):
        for k in sorted(v.keys()):
            d = dict(v)
            del d[k]
            yield d


def shrink(case, still_fails, budget=400):
    b = _Budget(budget)
    best = case
    improved = True
    while improved and b.left > 0:
        improved = False
        for path in list(_paths(best)):
            try:
                v = _get(best, path)
            except (KeyError, IndexError, TypeError):
                continue    # path vanished after an earlier step
            for cand in _candidates(v):
                if type(cand) is type(v) and cand == v:
                    continue
                if not b.take():
                    return best
                trial = _set(best, path, cand)
                if case_size(trial) >= case_size(best) and not (
                        isinstance(cand, (int, float, bool))):
                    continue
                ok = False
                try:
                    ok = bool(still_fails(trial))
                except Exception:
                    ok = False
                if ok:
                    best = trial
                    improved = True
                    break
            if improved:
                break
    return best
