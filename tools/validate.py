#!/opt/veriftools/pyvenv/bin/python
"""Validate MANIFEST.json and evidence files against the given schemas."""
import json, sys, os, glob
try:
    import jsonschema
except ImportError:
    sys.path.insert(0, '/opt/veriftools/pyvenv/lib/python3.11/site-packages')
    import jsonschema
root = os.path.dirname(os.path.dirname(os.path.abspath(__file__)))
ok = True
def check(path, schema):
    global ok
    try:
        jsonschema.validate(json.load(open(path)), json.load(open(schema)))
        print('valid  ', os.path.relpath(path, root))
    except Exception as e:
        ok = False
        print('INVALID', os.path.relpath(path, root), str(e)[:300])
check(os.path.join(root, 'MANIFEST.json'), '/root/.vp/MANIFEST.schema.json')
for p in sorted(glob.glob(os.path.join(root, 'evidence', '*.json'))):
    check(p, '/root/.vp/EVIDENCE.schema.json')
m = json.load(open(os.path.join(root, 'MANIFEST.json')))
ids = [json.loads(l)['id'] for l in open(os.path.join(root, 'properties.jsonl'))]
claimed = [c['property_id'] for c in m['checks']]
na = [n['property_id'] for n in m.get('not_applicable', [])]
for i in ids:
    if (i in claimed) == (i in na):
        ok = False
        print('property', i, 'must be exactly one of claimed / not_applicable')
sys.exit(0 if ok else 1)
