#!/venv/bin/python
"""Regenerate MANIFEST.json from the property modules present in tv/props
(each module carries its own LEVEL_TEXT / LEVEL_NOTE / TECHNIQUE)."""
import importlib, json, os, sys
root = os.path.dirname(os.path.dirname(os.path.abspath(__file__)))
sys.path.insert(0, root)
sys.path.insert(0, os.environ.get('VERIF_REPO', '/repo'))
ids = [json.loads(l)['id'] for l in open(os.path.join(root, 'properties.jsonl'))]
NA_REASON = {}
checks, na = [], []
for i in ids:
    path = os.path.join(root, 'tv', 'props', i.lower() + '.py')
    if not os.path.exists(path):
        na.append({'property_id': i, 'reason': NA_REASON.get(i, 'check not built yet (planned in DESIGN.md section 4); nothing is claimed for it')})
        continue
    mod = importlib.import_module('tv.props.' + i.lower())
    checks.append({
        'property_id': i,
        'quick_cmd': 'bin/check %s quick' % i,
        'thorough_cmd': 'bin/check %s thorough' % i,
        'evidence_file': 'evidence/%s.json' % i,
        'replay_cmd_template': 'bin/check %s quick --replay {path}' % i,
        'engine': 'tv',
        'level_claimed': {'category': 'exploration', 'text': mod.LEVEL_TEXT,
                          'design_ref': 'DESIGN.md section 4, %s' % i},
        'level_note': mod.LEVEL_NOTE,
        'technique': mod.TECHNIQUE,
    })
m = {
 'version': 1,
 'setup_cmd': 'bin/setup',
 'hooks': {'guard': 'TDDA_TDDA_VERIF',
           'enable': 'no source hooks are needed: every observation point is a public function, a file, a message or an exit status; bin/check exports TDDA_TDDA_VERIF=1 for uniformity and imports tdda from /repo\'s working tree in fresh processes',
           'baseline_off_cmd': 'cd /repo && /venv/bin/python -m pytest -ra -q -p no:cacheprovider --timeout=900 --continue-on-collection-errors',
           'source_commits': [], 'add_only': True},
 'engines': [{'name': 'tv', 'path': 'tv/', 'serves_properties': [c['property_id'] for c in checks],
              'kind_free_text': 'property-based testing: Hypothesis strategies generate JSON case descriptions (seeded from VERIF_SEED, 16 sharded processes), each case is run against tdda imported from /repo and judged by an explicit oracle (reference model, round trip, differential, metamorphic relation); violations are bucketed by root cause, minimised by a structural JSON shrinker and written as replay files'}],
 'checks': checks,
 'not_applicable': na,
 'notes': 'bin/check <ID> <quick|thorough> [--replay FILE]; exit 0 held / 1 VIOLATION / 2 harness error. known_findings.json lists recorded defects (KNOWN-FINDING lines) and repaired ones (fix: commits in /repo).',
}
json.dump(m, open(os.path.join(root, 'MANIFEST.json'), 'w'), indent=1)
print('MANIFEST.json: %d checks, %d not_applicable' % (len(checks), len(na)))
