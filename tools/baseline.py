#!/venv/bin/python
"""Run the pinned test suite in a tree and compare with BASELINE.json stable_pass.
usage: baseline.py [tree]   -> exit 0 iff every stable_pass test passed"""
import json, os, subprocess, sys, tempfile
import xml.etree.ElementTree as ET
tree = sys.argv[1] if len(sys.argv) > 1 else '/repo'
base = json.load(open('/root/.vp/BASELINE.json'))
want = set(base['stable_pass'])
fd, xml = tempfile.mkstemp(suffix='.xml'); os.close(fd)
env = dict(os.environ); env.pop('TDDA_TDDA_VERIF', None)
subprocess.run(['/venv/bin/python', '-m', 'pytest', '-ra', '-q', '-p', 'no:cacheprovider',
                '--timeout=900', '--continue-on-collection-errors', '--junitxml=' + xml],
               cwd=tree, env=env, stdout=subprocess.DEVNULL, stderr=subprocess.DEVNULL)
passed = set()
for tc in ET.parse(xml).getroot().iter('testcase'):
    if not any(ch.tag in ('failure', 'error', 'skipped') for ch in tc):
        passed.add('%s::%s' % (tc.get('classname'), tc.get('name')))
os.unlink(xml)
missing = sorted(want - passed)
print('baseline: %d/%d stable tests pass; %d others pass' % (len(want & passed), len(want), len(passed - want)))
for m in missing[:20]:
    print('  NOT PASSING:', m)
sys.exit(1 if missing else 0)
