#!/venv/bin/python
"""
Seeded-defect bookkeeping.

  seeded.py import <ID> <mN>     copy /tmp/wt/<ID>.out/<mN> to seeded/<ID>-<mN>/ after
                                 confirming: patch applies to /repo HEAD, the 218
                                 stable tests pass with it, demo passes without and
                                 fails with it
  seeded.py run <name> [tier] [ID...]   run bin/check for the property (or the given
                                 ids) against a scratch worktree carrying the patch
  seeded.py runall [tier]        run every seeded change against its own property
Scratch worktrees live under /tmp/sw and are removed after each use.
"""
import json, os, shutil, subprocess, sys, time

ROOT = os.path.dirname(os.path.dirname(os.path.abspath(__file__)))
SEEDED = os.path.join(ROOT, 'seeded')
SW = '/tmp/sw'
PY = '/venv/bin/python'


def sh(cmd, **kw):
    return subprocess.run(cmd, shell=isinstance(cmd, str), stdout=subprocess.PIPE,
                          stderr=subprocess.STDOUT, text=True, **kw)


def worktree(name):
    os.makedirs(SW, exist_ok=True)
    d = os.path.join(SW, name)
    if os.path.exists(d):
        sh(['git', '-C', '/repo', 'worktree', 'remove', '--force', d])
        shutil.rmtree(d, ignore_errors=True)
    r = sh(['git', '-C', '/repo', 'worktree', 'add', '--detach', d, 'HEAD'])
    assert r.returncode == 0, r.stdout
    # carry over uncommitted state of /repo's tracked files, if any
    diff = subprocess.run(['git', '-C', '/repo', 'diff', 'HEAD'], stdout=subprocess.PIPE).stdout
    if diff.strip():
        subprocess.run(['git', '-C', d, 'apply'], input=diff, check=True)
    return d


def drop(d):
    sh(['git', '-C', '/repo', 'worktree', 'remove', '--force', d])
    shutil.rmtree(d, ignore_errors=True)
    sh(['git', '-C', '/repo', 'worktree', 'prune'])


def demo(tree, path):
    env = dict(os.environ, PYTHONPATH=tree, PYTHONHASHSEED='0', PYTHONDONTWRITEBYTECODE='1')
    r = sh([PY, path], cwd=tree, env=env, timeout=900)
    return r.returncode, r.stdout.strip().splitlines()[-1:] if r.stdout.strip() else []


def do_import(pid, m, srcroot='/tmp/wt', as_name=None):
    src = '%s/%s.out/%s' % (srcroot, pid, m)
    name = '%s-%s' % (pid, as_name or m)
    dst = os.path.join(SEEDED, name)
    for f in ('patch.diff', 'demo.py', 'meta.json'):
        assert os.path.exists(os.path.join(src, f)), 'missing ' + f
    tree = worktree('imp-' + name)
    ran = []
    try:
        rc0, out0 = demo(tree, os.path.join(src, 'demo.py'))
        ran.append('demo on unchanged tree: exit %d %s' % (rc0, out0))
        r = sh(['git', '-C', tree, 'apply', os.path.join(src, 'patch.diff')])
        ran.append('git apply patch.diff: exit %d' % r.returncode)
        if r.returncode != 0:
            print(name, 'PATCH DOES NOT APPLY', r.stdout[:300]); return False
        files = sh(['git', '-C', tree, 'diff', '--name-only']).stdout.split()
        rc1, out1 = demo(tree, os.path.join(src, 'demo.py'))
        ran.append('demo with change: exit %d %s' % (rc1, out1))
        b = sh([os.path.join(ROOT, 'tools', 'baseline.py'), tree])
        ran.append('tools/baseline.py <tree with change>: exit %d; %s' % (b.returncode, b.stdout.strip().splitlines()[0] if b.stdout.strip() else ''))
        ok = (rc0 == 0 and rc1 != 0 and b.returncode == 0 and all(f.startswith('tdda/') for f in files))
        print(name, 'OK' if ok else 'REJECTED', ran, files)
        if not ok:
            return False
        os.makedirs(dst, exist_ok=True)
        for f in ('patch.diff', 'demo.py'):
            shutil.copy(os.path.join(src, f), os.path.join(dst, f))
        meta = json.load(open(os.path.join(src, 'meta.json')))
        meta['breaks_property'] = pid
        meta['files_changed'] = files
        meta['confirmed_by_main_session'] = ran
        meta['source'] = 'independent sub-agent given only the property text and a scratch worktree'
        json.dump(meta, open(os.path.join(dst, 'meta.json'), 'w'), indent=1)
        return True
    finally:
        drop(tree)


def do_run(name, tier='quick', ids=None, seed=None):
    d = os.path.join(SEEDED, name)
    pid = name.split('-')[0]
    ids = ids or [pid]
    tree = worktree('run-' + name)
    res = {}
    try:
        r = sh(['git', '-C', tree, 'apply', os.path.join(d, 'patch.diff')])
        assert r.returncode == 0, r.stdout
        for i in ids:
            outdir = os.path.join(SW, 'out-' + name)
            env = dict(os.environ, VERIF_REPO=tree, VERIF_OUT_DIR=outdir)
            if seed is not None:
                env['VERIF_SEED'] = str(seed)
            t0 = time.time()
            r = sh([os.path.join(ROOT, 'bin', 'check'), i, tier], env=env, cwd=ROOT)
            viol = [l for l in r.stdout.splitlines() if l.startswith('VIOLATION')]
            desc = [l for l in r.stdout.splitlines() if l.startswith('  ')][:3]
            res[i] = {'exit': r.returncode, 'violations': len(viol), 'wall_s': round(time.time() - t0, 1),
                      'first': [x[:200] for x in desc]}
            print(name, i, tier, 'exit', r.returncode, len(viol), 'violation line(s)', '%.0fs' % (time.time() - t0))
            for x in desc:
                print('   ', x[:220])
            if r.returncode == 2:
                print(r.stdout[-1500:])
    finally:
        drop(tree)
        shutil.rmtree(os.path.join(SW, 'out-' + name), ignore_errors=True)
    resf = os.path.join(SEEDED, 'RESULTS.json')
    allr = json.load(open(resf)) if os.path.exists(resf) else {}
    allr.setdefault(name, {}).setdefault(tier, {}).update(res)
    json.dump(allr, open(resf, 'w'), indent=1, sort_keys=True)
    return res


if __name__ == '__main__':
    cmd = sys.argv[1]
    if cmd == 'import':
        # import <ID> <mN> [srcroot] [as-name]
        sys.exit(0 if do_import(*sys.argv[2:6]) else 1)
    elif cmd == 'run':
        tier = sys.argv[3] if len(sys.argv) > 3 else 'quick'
        do_run(sys.argv[2], tier, sys.argv[4:] or None)
    elif cmd == 'runall':
        tier = sys.argv[2] if len(sys.argv) > 2 else 'quick'
        for name in sorted(os.listdir(SEEDED)):
            if os.path.isdir(os.path.join(SEEDED, name)) and name != 'retired':
                pid = name.split('-')[0]
                if os.path.exists(os.path.join(ROOT, 'tv', 'props', pid.lower() + '.py')):
                    do_run(name, tier)
