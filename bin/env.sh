# sourced by bin/check and bin/setup: fixes the environment every check runs in
VERIF_ROOT="$(cd "$(dirname "${BASH_SOURCE[0]}")/.." && pwd)"
export VERIF_ROOT
PY=/venv/bin/python
[ -x "$PY" ] || PY="$(command -v python3)"
export PY
TREE="${VERIF_REPO:-/repo}"
export PYTHONPATH="$TREE:$VERIF_ROOT:$VERIF_ROOT/.deps"
export PYTHONHASHSEED="${PYTHONHASHSEED:-0}"
export PYTHONDONTWRITEBYTECODE=1
export LANG=C.UTF-8 LC_ALL=C.UTF-8 TZ=UTC
export PIP_NO_INDEX=1
export OMP_NUM_THREADS=1 OPENBLAS_NUM_THREADS=1 MKL_NUM_THREADS=1 ARROW_DEFAULT_MEMORY_POOL=system
export TDDA_TDDA_VERIF=1
export PYTHONWARNINGS=ignore
